use vstd::prelude::*;
verus!{
#[verifier::external_body] pub struct M { _p: () }
#[verifier::external_body] pub struct It<'a> { _p: core::marker::PhantomData<&'a mut ()> }
impl M {
    pub uninterp spec fn view(&self) -> int;
    #[verifier::external_body] pub fn values_mut(&mut self) -> (it: It<'_>) ensures it.cur() == old(self)@, it.proph() == final(self)@ { unimplemented!() }
}
impl<'a> It<'a> {
    pub uninterp spec fn cur(&self) -> int;
    pub uninterp spec fn proph(&self) -> int;
    #[verifier::external_body] pub fn bump(&mut self) ensures final(self).cur() == old(self).cur() + 1, final(self).proph() == old(self).proph() { unimplemented!() }
}
pub broadcast axiom fn it_dropped<'a>(it: It<'a>) ensures #[trigger] has_resolved(it) ==> it.proph() == it.cur();
pub fn ident<'a>(it: It<'a>) -> (r: It<'a>) ensures r == it { it }
fn t1(m: &mut M) ensures final(m)@ == old(m)@ + 1 {
    broadcast use it_dropped;
    let mut it = ident(m.values_mut());
    it.bump();
}
fn t2(m: &mut M) ensures final(m)@ == old(m)@ {
    broadcast use it_dropped;
    let mut it = ident(m.values_mut());
    it.bump();
}
}
fn main(){}
