
// ---- doubles (trusted) ----
use std::cell::RefCell;
use std::rc::Rc;
#[derive(Debug, Clone, PartialEq, Eq)] pub struct NodeId(pub u64);
#[derive(Debug, Clone, PartialEq, Eq)] pub struct NodeAddress { pub socket_addr: u64, pub node_id: NodeId }
#[derive(Debug, Clone, PartialEq, Eq)] pub struct RequestId(pub Vec<u8>);
#[derive(Debug, Clone, PartialEq, Eq)] pub enum ResponseBody { Talk { response: Vec<u8> }, Other }
#[derive(Debug, Clone, PartialEq, Eq)] pub struct Response { pub id: RequestId, pub body: ResponseBody }
#[derive(Debug, Clone, PartialEq, Eq)] pub enum HandlerIn { Response(NodeAddress, Box<Response>), Other }
#[derive(Debug)] pub enum ResponseError { ChannelClosed }
pub mod mpsc {
    use super::*;
    pub mod error { #[derive(Debug)] pub struct SendError<T>(pub T); impl<T> std::fmt::Display for SendError<T> { fn fmt(&self, f: &mut std::fmt::Formatter<'_>) -> std::fmt::Result { write!(f, "closed") } } }
    #[derive(Debug, Clone)]
    pub struct UnboundedSender<T> { pub log: Rc<RefCell<Vec<T>>>, pub closed: bool }
    impl<T> UnboundedSender<T> {
        pub fn send(&self, t: T) -> Result<(), error::SendError<T>> {
            if self.closed { Err(error::SendError(t)) } else { self.log.borrow_mut().push(t); Ok(()) }
        }
    }
}
// ---- extracted verbatim from src/service.rs (R1) ----
/// Request type for Protocols using `TalkReq` message.
///
/// Automatically responds with an empty body on drop if
/// [`TalkRequest::respond`] is not called.
#[derive(Debug)]
pub struct TalkRequest {
    id: RequestId,
    node_address: NodeAddress,
    protocol: Vec<u8>,
    body: Vec<u8>,
    sender: Option<mpsc::UnboundedSender<HandlerIn>>,
}

impl Drop for TalkRequest {
    fn drop(&mut self) {
        let sender = match self.sender.take() {
            Some(s) => s,
            None => return,
        };

        let response = Response {
            id: self.id.clone(),
            body: ResponseBody::Talk { response: vec![] },
        };

        
        if let Err(e) = sender.send(HandlerIn::Response(
            self.node_address.clone(),
            Box::new(response),
        )) {
            ()
        }
    }
}

impl TalkRequest {
    pub fn id(&self) -> &RequestId {
        &self.id
    }

    pub fn node_id(&self) -> &NodeId {
        &self.node_address.node_id
    }

    pub fn protocol(&self) -> &[u8] {
        &self.protocol
    }

    pub fn body(&self) -> &[u8] {
        &self.body
    }

    pub fn respond(mut self, response: Vec<u8>) -> Result<(), ResponseError> {
        

        let response = Response {
            id: self.id.clone(),
            body: ResponseBody::Talk { response },
        };

        self.sender
            .take()
            .unwrap()
            .send(HandlerIn::Response(
                self.node_address.clone(),
                Box::new(response),
            ))
            .map_err(|_| ResponseError::ChannelClosed)?;

        Ok(())
    }
}


#[cfg(kani)]
#[kani::proof]
#[kani::unwind(10)]
fn talk_exactly_one_response() {
    let log = Rc::new(RefCell::new(Vec::new()));
    let closed: bool = kani::any();
    let tx = mpsc::UnboundedSender { log: log.clone(), closed };
    let idb: [u8; 8] = kani::any();
    let idlen: usize = kani::any(); kani::assume(idlen <= 8);
    let id = RequestId(idb[..idlen].to_vec());
    let addr = NodeAddress { socket_addr: kani::any(), node_id: NodeId(kani::any()) };
    let req = TalkRequest { id: id.clone(), node_address: addr.clone(), protocol: vec![], body: vec![], sender: Some(tx) };
    let respond: bool = kani::any();
    let payload: [u8; 2] = kani::any();
    if respond {
        let r = req.respond(payload.to_vec());
        assert!(r.is_ok() == !closed);
    } else {
        drop(req);
    }
    let l = log.borrow();
    assert!(l.len() == if closed { 0 } else { 1 });
    if !closed {
        match &l[0] {
            HandlerIn::Response(a, r) => {
                assert!(*a == addr && r.id == id);
                match &r.body { ResponseBody::Talk { response } => assert!(if respond { response[..] == payload[..] } else { response.is_empty() }), _ => assert!(false) }
            }
            _ => assert!(false),
        }
    }
}
fn main() {}
