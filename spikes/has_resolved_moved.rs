use vstd::prelude::*;
verus!{
#[verifier::external_body] pub struct M { _p: () }
#[verifier::external_body] pub struct O<'a> { _p: core::marker::PhantomData<&'a mut ()> }
#[verifier::external_body] pub struct V<'a> { _p: core::marker::PhantomData<&'a mut ()> }
pub enum E<'a> { Occ(O<'a>), Vac(V<'a>) }
impl M {
    pub uninterp spec fn view(&self) -> int;
    #[verifier::external_body] pub fn entry(&mut self) -> (e: E<'_>) ensures e is Occ, e matches E::Occ(o) ==> o.before() == old(self)@ && o.cur() == old(self)@ && !o.removed() && final(self)@ == o.after(), e is Vac ==> final(self)@ == old(self)@ { unimplemented!() }
}
impl<'a> O<'a> {
    pub uninterp spec fn before(&self) -> int;
    pub uninterp spec fn cur(&self) -> int;
    pub uninterp spec fn after(&self) -> int;
    pub uninterp spec fn removed(&self) -> bool;
    #[verifier::external_body] pub fn get_mut(&mut self) -> (r: &mut usize) ensures *r as int == old(self).cur(), final(self).cur() == *final(r) as int, final(self).before() == old(self).before(), final(self).after() == old(self).after(), final(self).removed() == old(self).removed() { unimplemented!() }
    #[verifier::external_body] pub fn remove(&mut self) -> (r: usize) ensures final(self).removed(), final(self).after() == old(self).after(), final(self).cur() == old(self).cur(), final(self).before() == old(self).before() { unimplemented!() }
}
pub broadcast axiom fn o_dropped<'a>(e: O<'a>) ensures #[trigger] has_resolved(e) ==> e.after() == (if e.removed() { -1 } else { e.cur() });
fn t1(m: &mut M) requires 0 <= old(m)@ < 200 
  ensures old(m)@ == 2 ==> final(m)@ == 1
{
    broadcast use o_dropped;
    if let E::Occ(mut entry) = m.entry() {
        let count = entry.get_mut();
        *count = count.saturating_sub(1);
        if *count <= 1 {
            entry.remove();
        }
    }
}
fn t2(m: &mut M) requires 0 <= old(m)@ < 200 
  ensures old(m)@ == 2 ==> final(m)@ == -1
{
    broadcast use o_dropped;
    if let E::Occ(mut entry) = m.entry() {
        let count = entry.get_mut();
        *count = count.saturating_sub(1);
        if *count <= 1 {
            entry.remove();
        }
    }
}
}
fn main(){}

verus!{
fn t3(m: &mut M) requires 0 <= old(m)@ < 200 
  ensures old(m)@ == 5 ==> final(m)@ == 4
{
    broadcast use o_dropped;
    if let E::Occ(mut entry) = m.entry() {
        let count = entry.get_mut();
        *count = count.saturating_sub(1);
        if *count <= 1 {
            entry.remove();
        }
    }
}
fn t4(m: &mut M) requires 0 <= old(m)@ < 200 
  ensures old(m)@ == 5 ==> final(m)@ == 5
{
    broadcast use o_dropped;
    if let E::Occ(mut entry) = m.entry() {
        let count = entry.get_mut();
        *count = count.saturating_sub(1);
        if *count <= 1 {
            entry.remove();
        }
    }
}
}
