#![feature(allocator_api)]
use vstd::prelude::*;
verus! {
#[verifier::external_body] pub struct Enr { _p: () }
#[derive(PartialEq, Eq, Clone, Copy)] pub struct NodeId(pub [u8; 32]);
#[verifier::external_body] pub struct Key { _p: () }
pub uninterp spec fn log2d(a: NodeId, b: NodeId) -> Option<u64>;
pub uninterp spec fn enr_id(e: &Enr) -> NodeId;
impl Enr { #[verifier::external_body] pub fn node_id(&self) -> (r: NodeId) ensures r == enr_id(self) { unimplemented!() } }
impl Key {
    pub uninterp spec fn id(&self) -> NodeId;
    #[verifier::external_body] pub fn log2_distance(&self, other: &Key) -> (r: Option<u64>) ensures r == log2d(self.id(), other.id()) { unimplemented!() }
}
#[verifier::external_body] pub fn key_from(id: NodeId) -> (r: Key) ensures r.id() == id { unimplemented!() }

pub assume_specification<T, A: core::alloc::Allocator, F: FnMut(&T) -> bool> [Vec::<T, A>::retain] (v: &mut Vec<T, A>, f: F)
    requires forall|x: &T| #[trigger] f.requires((x,)),
    ensures
        // kept elements form a subsequence: every kept element satisfied f, every dropped one did not
        final(v)@.len() <= old(v)@.len(),
        forall|i: int| 0 <= i < final(v)@.len() ==> exists|j: int| 0 <= j < old(v)@.len() && old(v)@[j] == #[trigger] final(v)@[i] && f.ensures((&old(v)@[j],), true),
        (forall|j: int| 0 <= j < old(v)@.len() ==> f.ensures((&#[trigger] old(v)@[j],), true)) ==> final(v)@ == old(v)@,
        (exists|j: int| 0 <= j < old(v)@.len() && f.ensures((&#[trigger] old(v)@[j],), false) && !f.ensures((&old(v)@[j],), true)) ==> final(v)@.len() < old(v)@.len(),
;
pub assume_specification<T: PartialEq> [<[T]>::contains] (s: &[T], x: &T) -> (r: bool)
    ensures r == s@.contains(*x);
#[verifier::external_body] pub fn _unused() {}

pub open spec fn accept(peer: NodeId, e: &Enr, req: Seq<u64>) -> bool {
    log2d(peer, enr_id(e)) matches Some(d) && req.contains(d)
}

fn filter_block(nodes: &mut Vec<Enr>, distances_requested: &Vec<u64>, peer_key: &Key) -> (banned: bool)
    ensures
        forall|i: int| 0 <= i < final(nodes)@.len() ==> accept(peer_key.id(), &#[trigger] final(nodes)@[i], distances_requested@),
        !banned ==> final(nodes)@ == old(nodes)@,
{
    let mut banned = false;
                    let before_len = nodes.len();
                    nodes.retain(|enr| {
                        peer_key
                            .log2_distance(&key_from(enr.node_id()))
                            .map(|distance| distances_requested.contains(&distance))
                            .unwrap_or_else(|| false)
                    });

                    if nodes.len() < before_len {
                        banned = true;
                    }
    banned
}
} // verus!
fn main() {}
