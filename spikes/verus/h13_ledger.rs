use vstd::prelude::*;
use std::sync::Arc;

verus! {

// ---------------- trusted preamble: abstract types ----------------
#[verifier::external_body] #[verifier::reject_recursive_types(T)]
pub struct RwLock<T> { _p: core::marker::PhantomData<T> }
#[verifier::external_body] pub struct CombinedKey { _p: () }
#[verifier::external_body] pub struct Enr { _p: () }
#[verifier::external_body] pub struct Session { _p: () }
#[verifier::external_body] pub struct ChallengeData { _p: () }
#[derive(PartialEq, Eq, Clone, Copy)] pub struct NodeId(pub [u8; 32]);
#[derive(PartialEq, Eq, Clone, Copy)] pub struct SocketAddr(pub u64);
#[derive(PartialEq, Eq)] pub struct NodeAddress { pub socket_addr: SocketAddr, pub node_id: NodeId }
pub type MessageNonce = [u8; 12];
pub struct Challenge { pub data: ChallengeData, pub remote_enr: Option<Enr> }
pub enum ConnectionDirection { Incoming, Outgoing }
pub enum RequestError { InvalidRemotePacket, InvalidRemoteEnr, Timeout }
pub enum Error { SessionNotEstablished, InvalidChallengeSignature(Box<Challenge>), KeyDerivationFailed }
pub enum HandlerOut { Established(Enr, SocketAddr, ConnectionDirection), UnverifiableEnr { enr: Enr, socket: SocketAddr, node_id: NodeId } }
pub struct SendError;

impl Clone for NodeAddress {
    fn clone(&self) -> (r: Self) ensures r == *self { NodeAddress { socket_addr: self.socket_addr, node_id: self.node_id } }
}

pub uninterp spec fn enr_node_id(e: &Enr) -> NodeId;
// ghost: "the party at this node address proved possession of the key of node_id in THIS call"
pub uninterp spec fn authenticated(id: NodeId, ch: Challenge, sig: Seq<u8>, eph: Seq<u8>) -> bool;

#[verifier::external_body]
pub struct Challenges { _p: () }
impl Challenges {
    pub uninterp spec fn view(&self) -> Map<NodeAddress, Challenge>;
    /// number of keys with this socket address (derived from the view; lemmas assumed here, proved once in the real unit)
    pub uninterp spec fn cnt(&self, a: SocketAddr) -> nat;
    #[verifier::external_body]
    pub fn remove(&mut self, k: &NodeAddress) -> (r: Option<Challenge>)
        ensures final(self)@ == old(self)@.remove(*k),
                forall|a: SocketAddr| #[trigger] final(self).cnt(a) == (if a == k.socket_addr && old(self)@.contains_key(*k) { (old(self).cnt(a) - 1) as nat } else { old(self).cnt(a) }),
                old(self)@.contains_key(*k) ==> old(self).cnt(k.socket_addr) >= 1,
                r == (if old(self)@.contains_key(*k) { Some(old(self)@[*k]) } else { None::<Challenge> }),
    { unimplemented!() }
    #[verifier::external_body]
    pub fn insert(&mut self, k: NodeAddress, v: Challenge)
        ensures final(self)@ == old(self)@.insert(k, v),
                forall|a: SocketAddr| #[trigger] final(self).cnt(a) == (if a == k.socket_addr && !old(self)@.contains_key(k) { old(self).cnt(a) + 1 } else { old(self).cnt(a) }),
    { unimplemented!() }
}

#[verifier::external_body]
pub struct Sender { _p: () }
impl Sender {
    pub uninterp spec fn log(&self) -> Seq<HandlerOut>;
    #[verifier::external_body]
    pub fn send(&mut self, m: HandlerOut) -> (r: Result<(), SendError>)
        ensures final(self).log() == old(self).log().push(m),
    { unimplemented!() }
}

pub struct Handler {
    pub node_id: NodeId,
    pub key: Arc<RwLock<CombinedKey>>,
    pub active_challenges: Challenges,
    pub service_send: Sender,
    pub ghost_sessions: Ghost<Map<NodeAddress, int>>,
    pub ghost_exempt: Ghost<Map<SocketAddr, nat>>,
    pub ghost_reqs: Ghost<Map<SocketAddr, nat>>,
}

impl Session {
    #[verifier::external_body]
    pub fn establish_from_challenge(
        local_key: Arc<RwLock<CombinedKey>>, local_id: &NodeId, remote_id: &NodeId, challenge: Challenge,
        id_nonce_sig: &[u8], ephem_pubkey: &[u8], enr_record: Option<Enr>,
    ) -> (r: Result<(Session, Enr), Error>)
        ensures
            r matches Ok((s, enr)) ==> enr_node_id(&enr) == *remote_id && authenticated(*remote_id, challenge, id_nonce_sig@, ephem_pubkey@),
            r matches Err(Error::InvalidChallengeSignature(c)) ==> *c == challenge,
    { unimplemented!() }
}

impl Handler {
    pub open spec fn exempt(&self) -> Map<SocketAddr, nat> { self.ghost_exempt@ }
    pub open spec fn ex(&self, a: SocketAddr) -> nat { if self.ghost_exempt@.contains_key(a) { self.ghost_exempt@[a] } else { 0 } }
    pub open spec fn rq(&self, a: SocketAddr) -> nat { if self.ghost_reqs@.contains_key(a) { self.ghost_reqs@[a] } else { 0 } }
    /// ledger invariant C13.L
    pub open spec fn ledger(&self) -> bool { forall|a: SocketAddr| self.ex(a) == #[trigger] self.active_challenges.cnt(a) + self.rq(a) }
    pub open spec fn sessions(&self) -> Map<NodeAddress, int> { self.ghost_sessions@ }

    #[verifier::external_body]
    fn remove_expected_response(&mut self, a: SocketAddr)
        ensures final(self).active_challenges == old(self).active_challenges, final(self).service_send == old(self).service_send,
                final(self).sessions() == old(self).sessions(), final(self).node_id == old(self).node_id,
                final(self).exempt() == (if old(self).exempt().contains_key(a) && old(self).exempt()[a] > 1 { old(self).exempt().insert(a, (old(self).exempt()[a] - 1) as nat) } else { old(self).exempt().remove(a) }),
                final(self).ghost_reqs == old(self).ghost_reqs,
    { unimplemented!() }

    #[verifier::external_body]
    fn verify_enr(&self, enr: &Enr, node_address: &NodeAddress) -> (r: bool)
        ensures r ==> enr_node_id(enr) == node_address.node_id,
    { unimplemented!() }

    #[verifier::external_body]
    fn notify_unverifiable_enr(&mut self, enr: Enr, socket: SocketAddr, node_id: NodeId)
        ensures final(self).ghost_reqs == old(self).ghost_reqs, final(self).active_challenges == old(self).active_challenges, final(self).sessions() == old(self).sessions(), final(self).exempt() == old(self).exempt(), final(self).node_id == old(self).node_id,
                final(self).service_send.log() == old(self).service_send.log().push(HandlerOut::UnverifiableEnr { enr, socket, node_id }),
    { unimplemented!() }

    #[verifier::external_body]
    fn new_session(&mut self, node_address: NodeAddress, session: Session, message_nonce: Option<MessageNonce>)
        requires old(self).ledger(),
        ensures final(self).ledger(), final(self).active_challenges == old(self).active_challenges, final(self).exempt() == old(self).exempt(), final(self).node_id == old(self).node_id,
                final(self).service_send == old(self).service_send,
                final(self).sessions().dom() == old(self).sessions().dom().insert(node_address),
    { unimplemented!() }

    #[verifier::external_body]
    fn handle_message(&mut self, node_address: NodeAddress, message_nonce: MessageNonce, message: &[u8], authenticated_data: &[u8])
        requires old(self).ledger(),
        ensures final(self).ledger(), final(self).active_challenges == old(self).active_challenges, final(self).node_id == old(self).node_id,
    { unimplemented!() }

    #[verifier::external_body]
    fn fail_session(&mut self, node_address: &NodeAddress, error: RequestError, remove_session: bool)
        requires old(self).ledger(),
        ensures final(self).ledger(), final(self).active_challenges == old(self).active_challenges, final(self).node_id == old(self).node_id,
    { unimplemented!() }

    // ---------------- extracted: src/handler/mod.rs :: Handler::handle_auth_message (R1, R2) ----------------
    #[allow(clippy::too_many_arguments)]
    fn handle_auth_message(
        &mut self,
        node_address: NodeAddress,
        message_nonce: MessageNonce,
        id_nonce_sig: &[u8],
        ephem_pubkey: &[u8],
        enr_record: Option<Enr>,
        message: &[u8],
        authenticated_data: &[u8],
    )
        requires old(self).ledger(),
        ensures
            final(self).ledger(),
            // C03.need: without an outstanding challenge nothing happens
            !old(self).active_challenges@.contains_key(node_address) ==> (
                final(self).sessions() == old(self).sessions() && final(self).exempt() == old(self).exempt()
                && final(self).service_send.log() == old(self).service_send.log()
                && final(self).active_challenges@ == old(self).active_challenges@),
    {
        if let Some(challenge) = self.active_challenges.remove(&node_address) {
            match Session::establish_from_challenge(
                self.key.clone(),
                &self.node_id,
                &node_address.node_id,
                challenge,
                id_nonce_sig,
                ephem_pubkey,
                enr_record,
            ) {
                Ok((session, enr)) => {
                    // Remove the expected response for the challenge.
                    self.remove_expected_response(node_address.socket_addr);
                    if self.verify_enr(&enr, &node_address) {
                        if let Err(e) = self
                            .service_send
                            .send(HandlerOut::Established(
                                enr,
                                node_address.socket_addr,
                                ConnectionDirection::Incoming,
                            ))
                        {
                        }
                    } else {
                        self.notify_unverifiable_enr(
                            enr,
                            node_address.socket_addr,
                            node_address.node_id,
                        )
                        ;
                    }
                    self.new_session(node_address.clone(), session, None);
                    self.handle_message(
                        node_address.clone(),
                        message_nonce,
                        message,
                        authenticated_data,
                    )
                    ;
                }
                Err(Error::InvalidChallengeSignature(challenge)) => {
                    // insert back the challenge
                    self.active_challenges.insert(node_address, *challenge);
                }
                Err(e) => {
                    self.fail_session(&node_address, RequestError::InvalidRemotePacket, true)
                        ;
                }
            }
        } else {
        }
    }
}

} // verus!
fn main() {}
