
use vstd::prelude::*;
verus! {
#[derive(PartialEq, Eq, Clone, Copy)] pub struct NodeId(pub [u8; 32]);
#[derive(PartialEq, Eq, Clone, Copy)] pub struct SocketAddr(pub u64);
#[derive(PartialEq, Eq)] pub struct NodeAddress { pub socket_addr: SocketAddr, pub node_id: NodeId }
impl Clone for NodeAddress { fn clone(&self) -> (r: Self) ensures r == *self { NodeAddress { socket_addr: self.socket_addr, node_id: self.node_id } } }
#[derive(Clone, Copy)] pub struct ProtocolIdentity { pub a: u64 }
pub type MessageNonce = [u8; 12];
#[derive(PartialEq, Eq)] pub struct RequestId(pub Vec<u8>);
impl Clone for RequestId { #[verifier::external_body] fn clone(&self) -> (r: Self) ensures r == *self { unimplemented!() } }
pub enum HandlerReqId { Internal(RequestId), External(RequestId) }
impl Clone for HandlerReqId { #[verifier::external_body] fn clone(&self) -> (r: Self) ensures r == *self { unimplemented!() } }
#[verifier::external_body] pub struct RequestBody { _p: () }
impl Clone for RequestBody { #[verifier::external_body] fn clone(&self) -> (r: Self) { unimplemented!() } }
pub struct Request { pub id: RequestId, pub body: RequestBody }
impl Request { #[verifier::external_body] pub fn encode(self) -> Vec<u8> { unimplemented!() } }
pub enum ResponseBody { Nodes { total: u64, nodes: Vec<u8> }, Pong, Talk }
pub struct Response { pub id: RequestId, pub body: ResponseBody }
#[verifier::external_body] pub struct Packet { _p: () }
impl Clone for Packet { #[verifier::external_body] fn clone(&self) -> (r: Self) ensures r == *self { unimplemented!() } }
impl Packet { #[verifier::external_body] pub fn new_random(id: &NodeId, p: ProtocolIdentity) -> Result<Packet, &'static str> { unimplemented!() } }
#[verifier::external_body] pub struct NodeContact { _p: () }
impl NodeContact { #[verifier::external_body] pub fn node_address(&self) -> NodeAddress { unimplemented!() } }
#[verifier::external_body] pub struct Session { _p: () }
pub enum Error { X }
impl Session { #[verifier::external_body] pub fn encrypt_message(&mut self, id: NodeId, m: &[u8], p: ProtocolIdentity) -> Result<Packet, Error> { unimplemented!() } }
pub enum RequestError { SelfRequest, EncryptionFailed(String), EntropyFailure(&'static str), Timeout, InvalidRemotePacket }
impl Clone for RequestError { #[verifier::external_body] fn clone(&self) -> (r: Self) { unimplemented!() } }
#[verifier::external_body] pub fn verif_fmt() -> String { unimplemented!() }
#[verifier::external_body] pub struct RequestCall { _p: () }
impl RequestCall {
    #[verifier::external_body] pub fn new(c: NodeContact, p: Packet, id: HandlerReqId, r: RequestBody, init: bool) -> RequestCall { unimplemented!() }
    #[verifier::external_body] pub fn retries(&self) -> u8 { unimplemented!() }
    #[verifier::external_body] pub fn increment_retries(&mut self) { unimplemented!() }
    #[verifier::external_body] pub fn packet(&self) -> &Packet { unimplemented!() }
    #[verifier::external_body] pub fn id(&self) -> &HandlerReqId { unimplemented!() }
    #[verifier::external_body] pub fn contact(&self) -> &NodeContact { unimplemented!() }
    #[verifier::external_body] pub fn remaining_responses_mut(&mut self) -> &mut Option<u64> { unimplemented!() }
}
pub struct PendingRequest { pub contact: NodeContact, pub request_id: HandlerReqId, pub request: RequestBody }
#[verifier::external_body] pub struct ListenSockets { _p: () }
impl ListenSockets { #[verifier::external_body] pub fn contains(&self, a: &SocketAddr) -> bool { unimplemented!() } }
#[verifier::external_body] pub struct Challenges { _p: () }
#[verifier::external_body] pub struct ChallengeRef { _p: () }
impl Challenges { #[verifier::external_body] pub fn get(&self, a: &NodeAddress) -> Option<&ChallengeRef> { unimplemented!() } }
#[verifier::external_body] pub struct PendingMap { _p: () }
#[verifier::external_body] pub struct PEntry<'a> { _p: core::marker::PhantomData<&'a mut u8> }
impl PendingMap { #[verifier::external_body] pub fn entry(&mut self, a: NodeAddress) -> PEntry<'_> { unimplemented!() } }
impl<'a> PEntry<'a> { #[verifier::external_body] pub fn or_default(self) -> &'a mut Vec<PendingRequest> { unimplemented!() } }
#[verifier::external_body] pub struct Sessions { _p: () }
impl Sessions { #[verifier::external_body] pub fn get_mut(&mut self, a: &NodeAddress) -> Option<&mut Session> { unimplemented!() } }
#[verifier::external_body] pub struct ActiveRequests { _p: () }
impl ActiveRequests {
    #[verifier::external_body] pub fn insert(&mut self, a: NodeAddress, c: RequestCall) { unimplemented!() }
    #[verifier::external_body] pub fn remove_request(&mut self, a: &NodeAddress, id: &RequestId) -> Option<RequestCall> { unimplemented!() }
}
pub enum HandlerOut { Response(NodeAddress, Box<Response>), RequestFailed(RequestId, RequestError) }
pub struct SendError;
#[verifier::external_body] pub struct Sender { _p: () }
impl Sender { #[verifier::external_body] pub fn send(&mut self, m: HandlerOut) -> Result<(), SendError> { unimplemented!() } }
pub struct Handler {
    pub request_retries: u8, pub node_id: NodeId, pub protocol_identity: ProtocolIdentity,
    pub listen_sockets: ListenSockets, pub active_challenges: Challenges, pub pending_requests: PendingMap,
    pub sessions: Sessions, pub active_requests: ActiveRequests, pub service_send: Sender,
}
impl Handler {
    #[verifier::external_body] fn is_awaiting_session_to_be_established(&mut self, a: &NodeAddress) -> bool { unimplemented!() }
    #[verifier::external_body] fn add_expected_response(&mut self, a: SocketAddr) { unimplemented!() }
    #[verifier::external_body] fn remove_expected_response(&mut self, a: SocketAddr) { unimplemented!() }
    #[verifier::external_body] fn send(&mut self, a: NodeAddress, p: Packet) { unimplemented!() }
    #[verifier::external_body] fn fail_session(&mut self, a: &NodeAddress, e: RequestError, r: bool) { unimplemented!() }
    fn send_request(
        &mut self,
        contact: NodeContact,
        request_id: HandlerReqId,
        request: RequestBody,
    ) -> Result<(), RequestError> {
        let node_address = contact.node_address();

        if self.listen_sockets.contains(&node_address.socket_addr) {
            
            return Err(RequestError::SelfRequest);
        }

        // If there is already an active challenge (WHOAREYOU sent) for this node, or if we are
        // awaiting a session with this node to be established, add the request to pending requests.
        if self.active_challenges.get(&node_address).is_some()
            || self.is_awaiting_session_to_be_established(&node_address)
        {
            
            self.pending_requests
                .entry(node_address)
                .or_default()
                .push(PendingRequest {
                    contact,
                    request_id,
                    request,
                });
            return Ok(());
        }

        let (packet, initiating_session) = {
            if let Some(session) = self.sessions.get_mut(&node_address) {
                // Encrypt the message and send
                let request = match &request_id {
                    HandlerReqId::Internal(id) | HandlerReqId::External(id) => Request {
                        id: id.clone(),
                        body: request.clone(),
                    },
                };
                let packet = session
                    .encrypt_message(self.node_id, &request.encode(), self.protocol_identity)
                    .map_err(|e| RequestError::EncryptionFailed(verif_fmt()))?;
                (packet, false)
            } else {
                // No session exists, start a new handshake initiating a new session
                
                let packet = Packet::new_random(&self.node_id, self.protocol_identity)
                    .map_err(|e0| RequestError::EntropyFailure(e0))?;
                (packet, true)
            }
        };

        let call = RequestCall::new(
            contact,
            packet.clone(),
            request_id,
            request,
            initiating_session,
        );
        // let the filter know we are expecting a response
        self.add_expected_response(node_address.socket_addr);
        self.send(node_address.clone(), packet);

        self.active_requests.insert(node_address, call);
        Ok(())
    }
    fn handle_request_timeout(
        &mut self,
        node_address: NodeAddress,
        mut request_call: RequestCall,
    ) {
        if request_call.retries() >= self.request_retries {
            
            // Remove the request from the awaiting packet_filter
            self.remove_expected_response(node_address.socket_addr);
            // The request has timed out. We keep any established session for future use.
            self.fail_request(request_call, RequestError::Timeout, false);
        } else {
            // increment the request retry count and restart the timeout
            
            self.send(node_address.clone(), request_call.packet().clone());
            request_call.increment_retries();
            self.active_requests.insert(node_address, request_call);
        }
    }
    fn fail_request(
        &mut self,
        request_call: RequestCall,
        error: RequestError,
        remove_session: bool,
    ) {
        // The Request has expired, remove the session.
        // Fail the current request
        match request_call.id() {
            HandlerReqId::Internal(_) => {
                // Do not report failures on requests belonging to the handler.
            }
            HandlerReqId::External(id) => {
                if let Err(e) = self
                    .service_send
                    .send(HandlerOut::RequestFailed(id.clone(), error.clone()))
                {
                    ()
                }
            }
        }

        let node_address = request_call.contact().node_address();
        self.fail_session(&node_address, error, remove_session);
    }
    fn handle_response(&mut self, node_address: NodeAddress, response: Response) {
        // Find a matching request, if any
        if let Some(mut request_call) = self
            .active_requests
            .remove_request(&node_address, &response.id)
        {
            // The response matches a request
            // Check to see if this is a Nodes response, in which case we may require to wait for
            // extra responses
            if let ResponseBody::Nodes { total, .. } = response.body {
                if total > 1 {
                    // This is a multi-response Nodes response
                    if let Some(remaining_responses) = request_call.remaining_responses_mut() {
                        *remaining_responses -= 1;
                        if remaining_responses != &0 {
                            // more responses remaining, add back the request and send the response
                            // add back the request and send the response
                            self.active_requests
                                .insert(node_address.clone(), request_call);
                            if let Err(e) = self
                                .service_send
                                .send(HandlerOut::Response(node_address, Box::new(response)))
                            {
                                ()
                            }
                            return;
                        }
                    } else {
                        // This is the first instance
                        *request_call.remaining_responses_mut() = Some(total - 1);
                        // add back the request and send the response
                        self.active_requests
                            .insert(node_address.clone(), request_call);
                        if let Err(e) = self
                            .service_send
                            .send(HandlerOut::Response(node_address, Box::new(response)))
                        {
                            ()
                        }
                        return;
                    }
                }
            }

            // Remove the expected response
            self.remove_expected_response(node_address.socket_addr);

            // The request matches report the response
            if let Err(e) = self
                .service_send
                .send(HandlerOut::Response(
                    node_address.clone(),
                    Box::new(response),
                ))
            {
                ()
            }
        } else {
            // This is likely a late response and we have already failed the request. These get
            // dropped here.
            
        }
    }
}
}
fn main(){}
