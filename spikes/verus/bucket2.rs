
use vstd::prelude::*;
verus! {
// ---------- trusted preamble ----------
pub const MAX_NODES_PER_BUCKET: usize = 16;
#[verifier::external_body] #[verifier::accept_recursive_types(T)]
pub struct Key<T> { _p: core::marker::PhantomData<T> }
impl<T> Key<T> { pub uninterp spec fn id(&self) -> int; }
impl<T> PartialEq for Key<T> { #[verifier::external_body] fn eq(&self, other: &Key<T>) -> (r: bool) ensures r == (self.id() == other.id()) { unimplemented!() } }
impl<T> Clone for Key<T> { #[verifier::external_body] fn clone(&self) -> (r: Self) ensures r.id() == self.id() { unimplemented!() } }
#[verifier::external_body] pub struct Instant { _p: () }
#[verifier::external_body] pub struct Duration { _p: () }
impl Instant { #[verifier::external_body] pub fn now() -> Instant { unimplemented!() }
               #[verifier::external_body] pub fn plus(self, d: Duration) -> Instant { unimplemented!() } }
impl Clone for Duration { #[verifier::external_body] fn clone(&self) -> Self { unimplemented!() } }
impl Copy for Duration {}

#[derive(PartialEq, Eq, Copy, Clone)] pub enum ConnectionDirection { Incoming, Outgoing }
#[derive(PartialEq, Eq, Copy, Clone)] pub enum ConnectionState { Connected, Disconnected }
#[derive(PartialEq, Eq, Copy, Clone)] pub struct NodeStatus { pub direction: ConnectionDirection, pub state: ConnectionState }
impl NodeStatus {
    pub fn is_connected(&self) -> (r: bool) ensures r == (self.state == ConnectionState::Connected) { match self.state { ConnectionState::Connected => true, ConnectionState::Disconnected => false } }
    pub fn is_incoming(&self) -> (r: bool) ensures r == (self.direction == ConnectionDirection::Incoming) { match self.direction { ConnectionDirection::Outgoing => false, ConnectionDirection::Incoming => true } }
}
pub struct Node<TNodeId, TVal> { pub key: Key<TNodeId>, pub value: TVal, pub status: NodeStatus }
pub struct PendingNode<TNodeId, TVal> { pub node: Node<TNodeId, TVal>, pub replace: Instant }
#[derive(Copy, Clone, PartialEq, Eq)] pub struct Position(pub usize);

pub assume_specification<T> [Option::<T>::or] (a: Option<T>, b: Option<T>) -> (r: Option<T>)
    ensures r == (if a is Some { a } else { b });
pub assume_specification<T, P: FnOnce(&T) -> bool> [Option::<T>::filter] (a: Option<T>, p: P) -> (r: Option<T>)
    requires a matches Some(x) ==> p.requires((&x,)),
    ensures a is None ==> r is None,
            a matches Some(x) ==> ((p.ensures((&x,), true) && r == a) || (p.ensures((&x,), false) && r is None));
// arrayvec::ArrayVec<T, 16> as a sequence (assumed contract on the dependency)
#[verifier::external_body] #[verifier::accept_recursive_types(T)]
pub struct ArrayVec<T> { _p: core::marker::PhantomData<T> }
impl<T> ArrayVec<T> {
    pub uninterp spec fn view(&self) -> Seq<T>;
    #[verifier::external_body] pub fn len(&self) -> (r: usize) ensures r == self@.len(), r <= 16 { unimplemented!() }
    #[verifier::external_body] pub fn is_full(&self) -> (r: bool) ensures r == (self@.len() == 16) { unimplemented!() }
    #[verifier::external_body] pub fn push(&mut self, x: T) requires old(self)@.len() < 16 ensures final(self)@ == old(self)@.push(x) { unimplemented!() }
    #[verifier::external_body] pub fn insert(&mut self, i: usize, x: T) requires old(self)@.len() < 16, i <= old(self)@.len() ensures final(self)@ == old(self)@.insert(i as int, x) { unimplemented!() }
    #[verifier::external_body] pub fn remove(&mut self, i: usize) -> (r: T) requires i < old(self)@.len() ensures final(self)@ == old(self)@.remove(i as int), r == old(self)@[i as int] { unimplemented!() }
    #[verifier::external_body] pub fn idx(&self, i: usize) -> (r: &T) requires i < self@.len() ensures *r == self@[i as int] { unimplemented!() }
}
pub enum InsertResult<TNodeId> { Inserted, Pending { disconnected: Key<TNodeId> }, FailedFilter, TooManyIncoming, Full, NodeExists }
pub enum FailureReason { TooManyIncoming, BucketFilter, TableFilter, KeyNonExistent, BucketFull, InvalidSelfUpdate }
pub enum UpdateResult { Updated, UpdatedAndPromoted, UpdatedPending, Failed(FailureReason), NotModified }

#[verifier::external_body] #[verifier::accept_recursive_types(TVal)]
pub struct FilterBox<TVal> { _p: core::marker::PhantomData<TVal> }
#[verifier::external_body] #[verifier::accept_recursive_types(A)] #[verifier::accept_recursive_types(B)]
pub struct NodeIter<'a, A, B> { _p: core::marker::PhantomData<&'a (A, B)> }
#[verifier::external_body] #[verifier::accept_recursive_types(B)]
pub struct ValIter<'a, B> { _p: core::marker::PhantomData<&'a B> }
pub uninterp spec fn spec_filter<TVal>(f: &FilterBox<TVal>, v: &TVal, others: Seq<TVal>) -> bool;
impl<'a, A, B> NodeIter<'a, A, B> {
    pub uninterp spec fn nodes(&self) -> Seq<Node<A, B>>;
    #[verifier::external_body]
    pub fn map<F: Fn(&'a Node<A, B>) -> &'a B>(self, f: F) -> (r: ValIter<'a, B>)
        ensures r.vals() == self.nodes().map_values(|n: Node<A, B>| n.value)
    { unimplemented!() }
}
impl<'a, B> ValIter<'a, B> { pub uninterp spec fn vals(&self) -> Seq<B>; }
impl<TVal> FilterBox<TVal> {
    #[verifier::external_body]
    pub fn filter(&self, v: &TVal, it: &mut ValIter<'_, TVal>) -> (r: bool) ensures r == spec_filter(self, v, old(it).vals()) { unimplemented!() }
}
pub struct KBucket<TNodeId, TVal> {
    pub nodes: ArrayVec<Node<TNodeId, TVal>>,
    pub first_connected_pos: Option<usize>,
    pub pending: Option<PendingNode<TNodeId, TVal>>,
    pub pending_timeout: Duration,
    pub max_incoming: usize,
    pub filter: Option<FilterBox<TVal>>,
}
impl<TNodeId, TVal> KBucket<TNodeId, TVal> {
    pub open spec fn wf(&self) -> bool {
        let n = self.nodes@.len();
        &&& n <= 16
        &&& (self.first_connected_pos matches Some(p) ==> p < n)
        &&& forall|i: int| 0 <= i < n ==> ((#[trigger] self.nodes@[i]).status.state == ConnectionState::Connected <==> (self.first_connected_pos matches Some(p) && i >= p))
    }
    #[verifier::external_body]
    pub fn position(&self, key: &Key<TNodeId>) -> (r: Option<Position>)
        ensures r matches Some(p) ==> p.0 < self.nodes@.len() && self.nodes@[p.0 as int].key.id() == key.id(),
                r is None ==> forall|i: int| 0 <= i < self.nodes@.len() ==> (#[trigger] self.nodes@[i]).key.id() != key.id(),
    { unimplemented!() }
    #[verifier::external_body]
    fn is_max_incoming(&self) -> bool { unimplemented!() }
    #[verifier::external_body]
    pub fn iter(&self) -> (r: NodeIter<'_, TNodeId, TVal>) ensures r.nodes() == self.nodes@ { unimplemented!() }
    pub fn insert(&mut self, node: Node<TNodeId, TVal>) -> (r: InsertResult<TNodeId>)
        requires old(self).wf(),
        ensures final(self).wf(),
    {
        // Prevent inserting duplicate nodes.
        if self.position(&node.key).is_some() {
            return InsertResult::NodeExists;
        }

        // check bucket filter
        if let Some(filter) = self.filter.as_ref() {
            if !filter.filter(&node.value, &mut self.iter().map(|node| &node.value)) {
                return InsertResult::FailedFilter;
            }
        }

        let inserting_pending = self
            .pending
            .as_ref()
            .map(|pending| pending.node.key == node.key)
            .unwrap_or_default();

        let insert_result = match node.status.state {
            ConnectionState::Connected => {
                if node.status.is_incoming() {
                    // check the maximum counter
                    if self.is_max_incoming() {
                        return InsertResult::TooManyIncoming;
                    }
                }
                if self.nodes.is_full() {
                    if self.first_connected_pos == Some(0) || self.pending.is_some() {
                        return InsertResult::Full;
                    } else {
                        self.pending = Some(PendingNode {
                            node,
                            replace: Instant::now().plus(self.pending_timeout),
                        });
                        return InsertResult::Pending {
                            disconnected: self.nodes.idx(0).key.clone(),
                        };
                    }
                }

                let pos = self.nodes.len();
                self.first_connected_pos = self.first_connected_pos.or(Some(pos));
                self.nodes.push(node);
                InsertResult::Inserted
            }
            ConnectionState::Disconnected => {
                if self.nodes.is_full() {
                    return InsertResult::Full;
                }

                if let Some(ref mut first_connected_pos) = self.first_connected_pos {
                    self.nodes.insert(*first_connected_pos, node);
                    *first_connected_pos += 1;
                } else {
                    self.nodes.push(node);
                }
                InsertResult::Inserted
            }
        };

        // If we inserted the node, make sure there is no pending node of the same key. This can
        // happen when a pending node is inserted, a node gets removed from the bucket, freeing up
        // space and then re-inserted here.
        if matches!(insert_result, InsertResult::Inserted) && inserting_pending {
            self.pending = None
        }
        insert_result
    }
    fn update_first_connected_pos_for_removal(&mut self, removed_pos: usize)
        ensures final(self).nodes == old(self).nodes,
    {
        self.first_connected_pos = self.first_connected_pos.and_then(|fcp| {
            if removed_pos < fcp {
                // Remove node is before the first connected position, decrement it.
                Some(fcp - 1)
            } else {
                // FCP is unchanged, unless there are no nodes following the removed node.
                Some(fcp).filter(|_u0| fcp < self.nodes.len())
            }
        });
    }

}
} // verus!
fn main() {}
