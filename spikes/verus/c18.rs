use vstd::prelude::*;
verus! {
#[verifier::external_body] pub struct Duration { _p: () }
impl Duration {
    pub uninterp spec fn nanos(&self) -> nat;
    #[verifier::external_body] pub fn as_nanos(&self) -> (r: u128) ensures r == self.nanos() { unimplemented!() }
    #[verifier::external_body] pub fn from_nanos(n: u64) -> (r: Duration) ensures r.nanos() == n { unimplemented!() }
}
pub type Nanosecs = u64;
pub enum RateLimitedErr { TooLarge, TooSoon(Duration) }
#[verifier::external_body] #[verifier::reject_recursive_types(K)] #[verifier::reject_recursive_types(V)]
pub struct FnvHashMap<K, V> { _p: core::marker::PhantomData<(K, V)> }
#[verifier::external_body] #[verifier::reject_recursive_types(K)] #[verifier::reject_recursive_types(V)]
pub struct Entry<'a, K, V> { _p: core::marker::PhantomData<&'a mut (K, V)> }
impl<K, V> FnvHashMap<K, V> {
    pub uninterp spec fn view(&self) -> Map<K, V>;
    #[verifier::external_body]
    pub fn entry(&mut self, k: K) -> (e: Entry<'_, K, V>) { unimplemented!() }
}
impl<'a, K, V> Entry<'a, K, V> {
    #[verifier::external_body]
    pub fn or_insert(self, v: V) -> (r: &'a mut V) { unimplemented!() }
}
#[verifier::reject_recursive_types(Key)]
pub struct Limiter<Key> { tau: Nanosecs, t: Nanosecs, tat_per_key: FnvHashMap<Key, Nanosecs> }
impl<Key: Clone> Limiter<Key> {

    pub fn allows(
        &mut self,
        time_since_start: Duration,
        key: &Key,
        tokens: u64,
    ) -> Result<(), RateLimitedErr> {
        let time_since_start = time_since_start.as_nanos() as u64;
        let tau = self.tau;
        let t = self.t;
        // how long does it take to replenish these tokens
        let additional_time = t * tokens;
        if additional_time > tau {
            // the time required to process this amount of tokens is longer than the time that
            // makes the bucket full. So, this batch can _never_ be processed
            return Err(RateLimitedErr::TooLarge);
        }
        // If the key is new, we consider their bucket full (which means, their request will be
        // allowed)
        let tat = self
            .tat_per_key
            .entry(key.clone())
            .or_insert(time_since_start);
        // check how soon could the request be made
        let earliest_time = (*tat + additional_time).saturating_sub(tau);
        // earliest_time is in the future
        if time_since_start < earliest_time {
            Err(RateLimitedErr::TooSoon(Duration::from_nanos(
                /* time they need to wait, i.e. how soon were they */
                earliest_time - time_since_start,
            )))
        } else {
            // calculate the new TAT
            *tat = time_since_start.max(*tat) + additional_time;
            Ok(())
        }
    }
}
}
fn main(){}
