
use vstd::prelude::*;
verus! {
#[verifier::external_body] #[derive(Clone, Copy)] pub struct Instant { _p: () }
#[verifier::external_body] #[derive(Clone, Copy)] pub struct Duration { _p: () }
impl Instant {
    pub uninterp spec fn t(&self) -> int;
    #[verifier::external_body] pub fn plus(self, d: Duration) -> Instant { unimplemented!() }
    #[verifier::external_body] pub fn ge(&self, o: &Instant) -> (r: bool) ensures r == (self.t() >= o.t()) { unimplemented!() }
}
#[verifier::external_body] #[verifier::accept_recursive_types(T)]
pub struct Key<T> { _p: core::marker::PhantomData<T> }
impl<T> Key<T> { #[verifier::external_body] pub fn preimage(&self) -> &T { unimplemented!() } }
pub enum QueryState<TNodeId> { Waiting(Option<TNodeId>), WaitingAtCapacity, Finished }
#[derive(Copy, Clone)] pub enum QueryProgress { Iterating { no_progress: usize }, Stalled, Finished }
#[derive(Copy, Clone)] pub enum QueryPeerState { NotContacted, Waiting(Instant), Unresponsive, Failed, Succeeded }
pub struct QueryPeer<TNodeId> { pub key: Key<TNodeId>, pub peers_returned: usize, pub state: QueryPeerState }
pub struct FindNodeQueryConfig { pub parallelism: usize, pub num_results: usize, pub peer_timeout: Duration }
#[verifier::external_body] #[verifier::reject_recursive_types(V)]
pub struct BTreeMap<V> { _p: core::marker::PhantomData<V> }
#[verifier::external_body] #[verifier::reject_recursive_types(V)]
pub struct ValuesMut<'a, V> { _p: core::marker::PhantomData<&'a mut V> }
impl<V> BTreeMap<V> { #[verifier::external_body] pub fn values_mut(&mut self) -> ValuesMut<'_, V> { unimplemented!() } }
impl<'a, V> ValuesMut<'a, V> { #[verifier::external_body] pub fn next(&mut self) -> Option<&'a mut V> { unimplemented!() } }
#[verifier::reject_recursive_types(TNodeId)]
pub struct FindNodeQuery<TNodeId> {
    pub progress: QueryProgress,
    pub closest_peers: BTreeMap<QueryPeer<TNodeId>>,
    pub num_waiting: usize,
    pub config: FindNodeQueryConfig,
}
impl<TNodeId: Clone> FindNodeQuery<TNodeId> {
    #[verifier::external_body] fn at_capacity(&self) -> bool { unimplemented!() }
    #[verifier::exec_allows_no_decreases_clause]
    pub fn next(&mut self, now: Instant) -> QueryState<TNodeId> {
        if let QueryProgress::Finished = self.progress {
            return QueryState::Finished;
        }

        // Count the number of peers that returned a result. If there is a
        // request in progress to one of the `num_results` closest peers, the
        // counter is set to `None` as the query can only finish once
        // `num_results` closest peers have responded (or there are no more
        // peers to contact, see `active_counter`).
        let mut result_counter = Some(0);

        // Check if the query is at capacity w.r.t. the allowed parallelism.
        let at_capacity = self.at_capacity();

        let mut it = self.closest_peers.values_mut();
        loop { let peer = match it.next() { Some(x) => x, None => break };
            match peer.state {
                QueryPeerState::NotContacted => {
                    // This peer is waiting to be reiterated.
                    if !at_capacity {
                        let timeout = now.plus(self.config.peer_timeout);
                        peer.state = QueryPeerState::Waiting(timeout);
                        self.num_waiting += 1;
                        let peer = peer.key.preimage().clone();
                        return QueryState::Waiting(Some(peer));
                    } else {
                        return QueryState::WaitingAtCapacity;
                    }
                }

                QueryPeerState::Waiting(timeout) => {
                    if now.ge(&timeout) {
                        // Peers that don't respond within timeout are set to `Failed`.
                        assert(self.num_waiting > 0);
                        self.num_waiting -= 1;
                        peer.state = QueryPeerState::Unresponsive;
                    } else if at_capacity {
                        // The query is still waiting for a result from a peer and is
                        // at capacity w.r.t. the maximum number of peers being waited on.
                        return QueryState::WaitingAtCapacity;
                    } else {
                        // The query is still waiting for a result from a peer and the
                        // `result_counter` did not yet reach `num_results`. Therefore
                        // the query is not yet done, regardless of already successful
                        // queries to peers farther from the target.
                        result_counter = None;
                    }
                }

                QueryPeerState::Succeeded => {
                    if let Some(ref mut cnt) = result_counter {
                        *cnt += 1;
                        // If `num_results` successful results have been delivered for the
                        // closest peers, the query is done.
                        if *cnt >= self.config.num_results {
                            self.progress = QueryProgress::Finished;
                            return QueryState::Finished;
                        }
                    }
                }

                QueryPeerState::Failed | QueryPeerState::Unresponsive => {
                    // Skip over unresponsive or failed peers.
                }
            }
        }

        if self.num_waiting > 0 {
            // The query is still waiting for results and not at capacity w.r.t.
            // the allowed parallelism, but there are no new peers to contact
            // at the moment.
            QueryState::Waiting(None)
        } else {
            // The query is finished because all available peers have been contacted
            // and the query is not waiting for any more results.
            self.progress = QueryProgress::Finished;
            QueryState::Finished
        }
    }
}
}
fn main(){}
