
use vstd::prelude::*;
verus! {
// ---------- trusted preamble ----------
pub const MAX_NODES_PER_BUCKET: usize = 16;
#[verifier::external_body] #[verifier::accept_recursive_types(T)]
pub struct Key<T> { _p: core::marker::PhantomData<T> }
impl<T> Key<T> { pub uninterp spec fn id(&self) -> int; }
impl<T> PartialEq for Key<T> { #[verifier::external_body] fn eq(&self, other: &Key<T>) -> (r: bool) ensures r == (self.id() == other.id()) { unimplemented!() } }
impl<T> Clone for Key<T> { #[verifier::external_body] fn clone(&self) -> (r: Self) ensures r.id() == self.id() { unimplemented!() } }
#[verifier::external_body] pub struct Instant { _p: () }
#[verifier::external_body] pub struct Duration { _p: () }
impl Instant { #[verifier::external_body] pub fn now() -> Instant { unimplemented!() }
               #[verifier::external_body] pub fn le(&self, o: &Instant) -> bool { unimplemented!() }
               #[verifier::external_body] pub fn plus(self, d: Duration) -> Instant { unimplemented!() } }
impl Clone for Duration { #[verifier::external_body] fn clone(&self) -> Self { unimplemented!() } }
impl Copy for Duration {}

#[derive(PartialEq, Eq, Copy, Clone)] pub enum ConnectionDirection { Incoming, Outgoing }
#[derive(PartialEq, Eq, Copy, Clone)] pub enum ConnectionState { Connected, Disconnected }
#[derive(PartialEq, Eq, Copy, Clone)] pub struct NodeStatus { pub direction: ConnectionDirection, pub state: ConnectionState }
impl NodeStatus {
    pub fn is_connected(&self) -> (r: bool) ensures r == (self.state == ConnectionState::Connected) { match self.state { ConnectionState::Connected => true, ConnectionState::Disconnected => false } }
    pub fn is_incoming(&self) -> (r: bool) ensures r == (self.direction == ConnectionDirection::Incoming) { match self.direction { ConnectionDirection::Outgoing => false, ConnectionDirection::Incoming => true } }
}
pub struct Node<TNodeId, TVal> { pub key: Key<TNodeId>, pub value: TVal, pub status: NodeStatus }
pub struct PendingNode<TNodeId, TVal> { pub node: Node<TNodeId, TVal>, pub replace: Instant }
impl<TNodeId, TVal> PendingNode<TNodeId, TVal> { pub fn status(&self) -> (r: NodeStatus) ensures r == self.node.status { self.node.status } }
#[derive(Copy, Clone, PartialEq, Eq)] pub struct Position(pub usize);

pub assume_specification<T> [Option::<T>::or] (a: Option<T>, b: Option<T>) -> (r: Option<T>)
    ensures r == (if a is Some { a } else { b });
pub assume_specification<T, P: FnOnce(&T) -> bool> [Option::<T>::filter] (a: Option<T>, p: P) -> (r: Option<T>)
    requires a matches Some(x) ==> p.requires((&x,)),
    ensures a is None ==> r is None,
            a matches Some(x) ==> ((p.ensures((&x,), true) && r == a) || (p.ensures((&x,), false) && r is None));
// arrayvec::ArrayVec<T, 16> as a sequence (assumed contract on the dependency)
#[verifier::external_body] #[verifier::accept_recursive_types(T)]
pub struct ArrayVec<T> { _p: core::marker::PhantomData<T> }
impl<T> ArrayVec<T> {
    pub uninterp spec fn view(&self) -> Seq<T>;
    #[verifier::external_body] pub fn len(&self) -> (r: usize) ensures r == self@.len(), r <= 16 { unimplemented!() }
    #[verifier::external_body] pub fn is_full(&self) -> (r: bool) ensures r == (self@.len() == 16) { unimplemented!() }
    #[verifier::external_body] pub fn push(&mut self, x: T) requires old(self)@.len() < 16 ensures final(self)@ == old(self)@.push(x) { unimplemented!() }
    #[verifier::external_body] pub fn insert(&mut self, i: usize, x: T) requires old(self)@.len() < 16, i <= old(self)@.len() ensures final(self)@ == old(self)@.insert(i as int, x) { unimplemented!() }
    #[verifier::external_body] pub fn remove(&mut self, i: usize) -> (r: T) requires i < old(self)@.len() ensures final(self)@ == old(self)@.remove(i as int), r == old(self)@[i as int] { unimplemented!() }
    #[verifier::external_body] pub fn get(&self, i: usize) -> (r: Option<&T>) ensures r is Some == (i < self@.len()) { unimplemented!() }
    #[verifier::external_body] pub fn idx(&self, i: usize) -> (r: &T) requires i < self@.len() ensures *r == self@[i as int] { unimplemented!() }
}
pub enum InsertResult<TNodeId> { Inserted, Pending { disconnected: Key<TNodeId> }, FailedFilter, TooManyIncoming, Full, NodeExists }
pub enum FailureReason { TooManyIncoming, BucketFilter, TableFilter, KeyNonExistent, BucketFull, InvalidSelfUpdate }
pub struct AppliedPending<TNodeId, TVal> { pub inserted: Key<TNodeId>, pub evicted: Option<Node<TNodeId, TVal>> }
pub enum UpdateResult { Updated, UpdatedAndPromoted, UpdatedPending, Failed(FailureReason), NotModified }

#[verifier::external_body] #[verifier::accept_recursive_types(TVal)]
pub struct FilterBox<TVal> { _p: core::marker::PhantomData<TVal> }
#[verifier::external_body] #[verifier::accept_recursive_types(A)] #[verifier::accept_recursive_types(B)]
pub struct NodeIter<'a, A, B> { _p: core::marker::PhantomData<&'a (A, B)> }
#[verifier::external_body] #[verifier::accept_recursive_types(B)]
pub struct ValIter<'a, B> { _p: core::marker::PhantomData<&'a B> }
pub uninterp spec fn spec_filter<TVal>(f: &FilterBox<TVal>, v: &TVal, others: Seq<TVal>) -> bool;
impl<'a, A, B> NodeIter<'a, A, B> {
    pub uninterp spec fn nodes(&self) -> Seq<Node<A, B>>;
    #[verifier::external_body]
    pub fn map<F: Fn(&'a Node<A, B>) -> &'a B>(self, f: F) -> (r: ValIter<'a, B>)
        ensures r.vals() == self.nodes().map_values(|n: Node<A, B>| n.value)
    { unimplemented!() }
}
impl<'a, B> ValIter<'a, B> { pub uninterp spec fn vals(&self) -> Seq<B>; }
impl<TVal> FilterBox<TVal> {
    #[verifier::external_body]
    pub fn filter(&self, v: &TVal, it: &mut ValIter<'_, TVal>) -> (r: bool) ensures r == spec_filter(self, v, old(it).vals()) { unimplemented!() }
}
pub struct KBucket<TNodeId, TVal> {
    pub nodes: ArrayVec<Node<TNodeId, TVal>>,
    pub first_connected_pos: Option<usize>,
    pub pending: Option<PendingNode<TNodeId, TVal>>,
    pub pending_timeout: Duration,
    pub max_incoming: usize,
    pub filter: Option<FilterBox<TVal>>,
}
impl<TNodeId: Clone, TVal: Eq> KBucket<TNodeId, TVal> {
    pub open spec fn wf(&self) -> bool {
        let n = self.nodes@.len();
        &&& n <= 16
        &&& (self.first_connected_pos matches Some(p) ==> p < n)
        &&& forall|i: int| 0 <= i < n ==> ((#[trigger] self.nodes@[i]).status.state == ConnectionState::Connected <==> (self.first_connected_pos matches Some(p) && i >= p))
    }
    #[verifier::external_body]
    pub fn position(&self, key: &Key<TNodeId>) -> (r: Option<Position>)
        ensures r matches Some(p) ==> p.0 < self.nodes@.len() && self.nodes@[p.0 as int].key.id() == key.id(),
                r is None ==> forall|i: int| 0 <= i < self.nodes@.len() ==> (#[trigger] self.nodes@[i]).key.id() != key.id(),
    { unimplemented!() }
    #[verifier::external_body]
    fn is_max_incoming(&self) -> bool { unimplemented!() }
    #[verifier::external_body]
    pub fn iter(&self) -> (r: NodeIter<'_, TNodeId, TVal>) ensures r.nodes() == self.nodes@ { unimplemented!() }
    pub fn apply_pending(&mut self) -> Option<AppliedPending<TNodeId, TVal>> {
        if let Some(pending) = self.pending.take() {
            if pending.replace.le(&Instant::now()) {
                // Check if the bucket is full
                if self.nodes.is_full() {
                    // Apply bucket filters

                    if self.nodes.idx(0).status.is_connected() {
                        // The bucket is full with connected nodes. Drop the pending node.
                        return None;
                    }
                    // Check the custom filter
                    if let Some(filter) = self.filter.as_ref() {
                        if !filter.filter(
                            &pending.node.value,
                            &mut self.iter().map(|node| &node.value),
                        ) {
                            // The pending node doesn't satisfy the bucket filter. Drop the pending
                            // node.
                            return None;
                        }
                    }
                    // Check the incoming node restriction
                    if pending.status().is_connected() && pending.status().is_incoming() {
                        // Make sure this doesn't violate the incoming conditions
                        if self.is_max_incoming() {
                            // The pending node doesn't satisfy the incoming/outgoing limits. Drop
                            // the pending node.
                            return None;
                        }
                    }

                    // The pending node will be inserted.
                    let inserted = pending.node.key.clone();
                    // A connected pending node goes at the end of the list for
                    // the connected peers, removing the least-recently connected.
                    if pending.status().is_connected() {
                        let evicted = Some(self.nodes.remove(0));
                        self.first_connected_pos = self
                            .first_connected_pos
                            .map_or_else(|| Some(self.nodes.len()), |p| p.checked_sub(1));
                        self.nodes.push(pending.node);
                        return Some(AppliedPending { inserted, evicted });
                    }
                    // A disconnected pending node goes at the end of the list
                    // for the disconnected peers.
                    else if let Some(p) = self.first_connected_pos {
                        if let Some(insert_pos) = p.checked_sub(1) {
                            let evicted = Some(self.nodes.remove(0));
                            self.nodes.insert(insert_pos, pending.node);
                            return Some(AppliedPending { inserted, evicted });
                        }
                    } else {
                        // All nodes are disconnected. Insert the new node as the most
                        // recently disconnected, removing the least-recently disconnected.
                        let evicted = Some(self.nodes.remove(0));
                        self.nodes.push(pending.node);
                        return Some(AppliedPending { inserted, evicted });
                    }
                } else {
                    // There is room in the bucket, so just insert the pending node.
                    let inserted = pending.node.key.clone();
                    match self.insert(pending.node) {
                        InsertResult::Inserted => {
                            return Some(AppliedPending {
                                inserted,
                                evicted: None,
                            })
                        }
                        InsertResult::Full => unreachable!("Bucket cannot be full"),
                        InsertResult::Pending { .. } | InsertResult::NodeExists => {
                            ()
                        }
                        InsertResult::FailedFilter => (),
                        InsertResult::TooManyIncoming => {
                            ()
                        }
                    }
                }
            } else {
                self.pending = Some(pending);
            }
        }

        None
    }
    pub fn update_status(
        &mut self,
        key: &Key<TNodeId>,
        state: ConnectionState,
        direction: Option<ConnectionDirection>,
    ) -> UpdateResult {
        // Remove the node from its current position and then reinsert it
        // with the desired status, which puts it at the end of either the
        // prefix list of disconnected nodes or the suffix list of connected
        // nodes (i.e. most-recently disconnected or most-recently connected,
        // respectively).
        if let Some(pos) = self.position(key) {
            // Remove the node from its current position.
            let mut node = self.nodes.remove(pos.0);
            let old_status = node.status;
            node.status.state = state;
            if let Some(direction) = direction {
                node.status.direction = direction;
            }

            // Flag indicating if this update modified the entry.
            let not_modified = old_status == node.status;
            // Flag indicating we are upgrading to a connected status
            let is_connected = matches!(state, ConnectionState::Connected);

            // Adjust `first_connected_pos` accordingly.
            match old_status.state {
                ConnectionState::Connected => {
                    if self.first_connected_pos == Some(pos.0) && pos.0 == self.nodes.len() {
                        // It was the last connected node.
                        self.first_connected_pos = None
                    }
                }
                ConnectionState::Disconnected => {
                    self.first_connected_pos =
                        self.first_connected_pos.and_then(|p| p.checked_sub(1))
                }
            }
            // If the least-recently connected node re-establishes its
            // connected status, drop the pending node.
            if pos == Position(0) && is_connected {
                self.pending = None
            }
            // Reinsert the node with the desired status.
            match self.insert(node) {
                InsertResult::Inserted => {
                    if not_modified {
                        UpdateResult::NotModified
                    } else if !old_status.is_connected() && is_connected {
                        // This means the status was updated from a disconnected state to connected
                        // state
                        UpdateResult::UpdatedAndPromoted
                    } else {
                        UpdateResult::Updated
                    }
                }
                InsertResult::TooManyIncoming => {
                    UpdateResult::Failed(FailureReason::TooManyIncoming)
                }
                // Node could not be inserted. None of these should be possible.
                InsertResult::FailedFilter => {
                    // If the filter is non-deterministic, potentially a re-insertion of the same
                    // node can fail the filter.
                    UpdateResult::Failed(FailureReason::BucketFilter)
                }
                InsertResult::NodeExists => {
                    unreachable!("The node was removed and shouldn't already exist")
                }
                InsertResult::Full => {
                    unreachable!("The node was removed so the bucket cannot be full")
                }
                InsertResult::Pending { .. } => {
                    unreachable!("The node was removed so can't be added as pending")
                }
            }
        } else if let Some(pending) = &mut self.pending {
            if &pending.node.key == key {
                pending.node.status.state = state;
                if let Some(direction) = direction {
                    pending.node.status.direction = direction;
                }
                UpdateResult::UpdatedPending
            } else {
                UpdateResult::Failed(FailureReason::KeyNonExistent)
            }
        } else {
            UpdateResult::Failed(FailureReason::KeyNonExistent)
        }
    }
    pub fn update_value(&mut self, key: &Key<TNodeId>, value: TVal) -> UpdateResult {
        // Remove the node from its current position, check the filter and add it back in.
        if let Some(Position(pos)) = self.position(key) {
            // Remove the node from its current position.
            let mut node = self.nodes.remove(pos);
            if node.value == value {
                self.nodes.insert(pos, node);
                UpdateResult::NotModified
            } else {
                // Check bucket filter
                if let Some(filter) = self.filter.as_ref() {
                    if !filter.filter(&value, &mut self.iter().map(|node| &node.value)) {
                        // Node is removed, update the `first_connected_pos` accordingly.
                        self.update_first_connected_pos_for_removal(pos);

                        return UpdateResult::Failed(FailureReason::BucketFilter);
                    }
                }
                node.value = value;
                self.nodes.insert(pos, node);
                UpdateResult::Updated
            }
        } else if let Some(pending) = &mut self.pending {
            if &pending.node.key == key {
                pending.node.value = value;
                UpdateResult::UpdatedPending
            } else {
                UpdateResult::Failed(FailureReason::KeyNonExistent)
            }
        } else {
            UpdateResult::Failed(FailureReason::KeyNonExistent)
        }
    }
    pub fn remove(&mut self, key: &Key<TNodeId>) -> bool {
        if let Some(Position(position)) = self.position(key) {
            self.nodes.remove(position);
            self.update_first_connected_pos_for_removal(position);
            self.apply_pending();
            true
        } else {
            false
        }
    }
    pub fn num_connected(&self) -> usize {
        self.first_connected_pos.map_or(0, |i| self.nodes.len() - i)
    }

    pub fn insert(&mut self, node: Node<TNodeId, TVal>) -> (r: InsertResult<TNodeId>)
        requires old(self).wf(),
        ensures final(self).wf(),
    {
        // Prevent inserting duplicate nodes.
        if self.position(&node.key).is_some() {
            return InsertResult::NodeExists;
        }

        // check bucket filter
        if let Some(filter) = self.filter.as_ref() {
            if !filter.filter(&node.value, &mut self.iter().map(|node| &node.value)) {
                return InsertResult::FailedFilter;
            }
        }

        let inserting_pending = self
            .pending
            .as_ref()
            .map(|pending| pending.node.key == node.key)
            .unwrap_or_default();

        let insert_result = match node.status.state {
            ConnectionState::Connected => {
                if node.status.is_incoming() {
                    // check the maximum counter
                    if self.is_max_incoming() {
                        return InsertResult::TooManyIncoming;
                    }
                }
                if self.nodes.is_full() {
                    if self.first_connected_pos == Some(0) || self.pending.is_some() {
                        return InsertResult::Full;
                    } else {
                        self.pending = Some(PendingNode {
                            node,
                            replace: Instant::now().plus(self.pending_timeout),
                        });
                        return InsertResult::Pending {
                            disconnected: self.nodes.idx(0).key.clone(),
                        };
                    }
                }

                let pos = self.nodes.len();
                self.first_connected_pos = self.first_connected_pos.or(Some(pos));
                self.nodes.push(node);
                InsertResult::Inserted
            }
            ConnectionState::Disconnected => {
                if self.nodes.is_full() {
                    return InsertResult::Full;
                }

                if let Some(ref mut first_connected_pos) = self.first_connected_pos {
                    self.nodes.insert(*first_connected_pos, node);
                    *first_connected_pos += 1;
                } else {
                    self.nodes.push(node);
                }
                InsertResult::Inserted
            }
        };

        // If we inserted the node, make sure there is no pending node of the same key. This can
        // happen when a pending node is inserted, a node gets removed from the bucket, freeing up
        // space and then re-inserted here.
        if matches!(insert_result, InsertResult::Inserted) && inserting_pending {
            self.pending = None
        }
        insert_result
    }
    fn update_first_connected_pos_for_removal(&mut self, removed_pos: usize)
        ensures final(self).nodes == old(self).nodes,
    {
        self.first_connected_pos = self.first_connected_pos.and_then(|fcp| {
            if removed_pos < fcp {
                // Remove node is before the first connected position, decrement it.
                Some(fcp - 1)
            } else {
                // FCP is unchanged, unless there are no nodes following the removed node.
                Some(fcp).filter(|_u0| fcp < self.nodes.len())
            }
        });
    }

}
} // verus!
fn main() {}
