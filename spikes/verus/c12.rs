
use vstd::prelude::*;
verus! {
#[verifier::external_body] pub struct Enr { _p: () }
#[derive(PartialEq, Eq, Clone, Copy)] pub struct NodeId(pub [u8; 32]);
#[derive(PartialEq, Eq, Clone, Copy)] pub struct SocketAddr(pub u64);
#[derive(PartialEq, Eq, Clone, Copy)] pub enum ConnectionDirection { Incoming, Outgoing }
#[derive(PartialEq, Eq, Clone, Copy)] pub enum ConnectionState { Connected, Disconnected }
#[derive(PartialEq, Eq, Clone, Copy)] pub struct NodeStatus { pub direction: ConnectionDirection, pub state: ConnectionState }
pub struct Node { pub status: NodeStatus }
#[derive(Clone, Copy)] pub enum IpMode { Ip4, Ip6, DualStack }
pub uninterp spec fn contactable(m: IpMode, e: &Enr) -> bool;
pub uninterp spec fn passes_filter(e: &Enr) -> bool;
pub uninterp spec fn enr_id(e: &Enr) -> NodeId;
impl Enr { #[verifier::external_body] pub fn node_id(&self) -> (r: NodeId) ensures r == enr_id(self) { unimplemented!() } }
impl IpMode { #[verifier::external_body] pub fn get_contactable_addr(&self, e: &Enr) -> (r: Option<SocketAddr>) ensures r.is_some() == contactable(*self, e) { unimplemented!() } }
#[verifier::external_body] pub struct ConnectivityState { _p: () }
impl ConnectivityState { #[verifier::external_body] pub fn received_incoming_connection(&mut self, s: &SocketAddr) { unimplemented!() } }
#[verifier::external_body] pub struct Key { _p: () }
pub mod kbucket { use super::*; pub struct KeyNs; 
  impl Key { #[verifier::external_body] pub fn from(id: NodeId) -> Key { unimplemented!() } } }
#[verifier::external_body] pub struct Bucket { _p: () }
impl Bucket { #[verifier::external_body] pub fn get(&self, k: &Key) -> Option<&Node> { unimplemented!() } }
#[verifier::external_body] pub struct Table { _p: () }
impl Table { #[verifier::external_body] pub fn get_bucket(&self, k: &Key) -> Option<&Bucket> { unimplemented!() } }
#[verifier::external_body] pub struct TableLock { _p: () }
impl TableLock { #[verifier::external_body] pub fn read(&self) -> &Table { unimplemented!() } }
pub enum ConnectionStatus { Connected(Enr, ConnectionDirection), PongReceived, Disconnected }
#[verifier::external_body] pub struct Filt { _p: () }
pub struct Config { pub table_filter: Filt }
pub struct Service { pub connectivity_state: ConnectivityState, pub ip_mode: IpMode, pub kbuckets: TableLock, pub config: Config }
impl Service {
    #[verifier::external_body]
    fn connection_updated(&mut self, node_id: NodeId, new_status: ConnectionStatus)
        requires new_status matches ConnectionStatus::Connected(enr, _) ==> contactable(old(self).ip_mode, &enr) && passes_filter(&enr) && enr_id(&enr) == node_id,
    { unimplemented!() }
    fn inject_session_established(
        &mut self,
        enr: Enr,
        socket: &SocketAddr,
        connection_direction: ConnectionDirection,
    ) {
        // Inform the connectivity state that an incoming peer has connected to us. This could
        // establish that our externally advertised address is contactable.
        if matches!(connection_direction, ConnectionDirection::Incoming) {
            self.connectivity_state.received_incoming_connection(socket);
        }

        // Ignore sessions with non-contactable ENRs
        if self.ip_mode.get_contactable_addr(&enr).is_none() {
            return;
        }

        let node_id = enr.node_id();

        // We never update connection direction if a node already exists in the routing table as we
        // don't want to promote the direction from incoming to outgoing.
        let key = Key::from(node_id);
        let direction = match self
            .kbuckets
            .read()
            .get_bucket(&key)
            .map(|bucket| bucket.get(&key))
        {
            Some(Some(node)) => node.status.direction,
            _ => connection_direction,
        };

        
        self.connection_updated(node_id, ConnectionStatus::Connected(enr, direction));
    }
}
}
fn main(){}
