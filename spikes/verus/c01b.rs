use vstd::prelude::*;
use std::sync::Arc;

verus! {

// ---- abstract (external) types and assumed contracts ----
#[verifier::external_body]
pub struct Enr { _p: () }
#[verifier::external_body]
pub struct NodeId { _p: () }
#[verifier::external_body]
pub struct CombinedKey { _p: () }
#[verifier::external_body]
pub struct CombinedPublicKey { _p: () }
#[verifier::external_body]
pub struct ChallengeData { _p: () }
#[verifier::external_body]
#[verifier::reject_recursive_types(T)]
pub struct RwLock<T> { _p: core::marker::PhantomData<T> }
#[verifier::external_body]
#[verifier::reject_recursive_types(T)]
pub struct RwLockReadGuard<T> { _p: core::marker::PhantomData<T> }

pub struct Keys { pub encryption_key: [u8; 16], pub decryption_key: [u8; 16] }
pub struct Session { pub keys: Keys, pub old_keys: Option<Keys>, pub counter: u32 }
pub struct Challenge { pub data: ChallengeData, pub remote_enr: Option<Enr> }

pub enum Error {
    SessionNotEstablished,
    InvalidChallengeSignature(Box<Challenge>),
    KeyDerivationFailed,
}

pub uninterp spec fn enr_seq(e: &Enr) -> u64;
pub uninterp spec fn enr_node_id(e: &Enr) -> NodeId;
pub uninterp spec fn enr_pubkey(e: &Enr) -> CombinedPublicKey;
pub uninterp spec fn sig_valid(pk: CombinedPublicKey, eph: Seq<u8>, data: ChallengeData, dst: NodeId, sig: Seq<u8>) -> bool;

impl Enr {
    #[verifier::external_body]
    pub fn seq(&self) -> (r: u64) ensures r == enr_seq(self) { unimplemented!() }
    #[verifier::external_body]
    pub fn public_key(&self) -> (r: CombinedPublicKey) ensures r == enr_pubkey(self) { unimplemented!() }
}
impl<T> RwLock<T> {
    #[verifier::external_body]
    pub fn read(&self) -> (r: RwLockReadGuard<T>) { unimplemented!() }
}
impl Session {
    pub fn new(keys: Keys) -> Self { Session { keys, old_keys: None, counter: 0 } }
}

pub mod crypto {
    use super::*;
    #[verifier::external_body]
    pub fn verify_authentication_nonce(pk: &CombinedPublicKey, eph: &[u8], data: &ChallengeData, dst: &NodeId, sig: &[u8]) -> (r: bool)
        ensures r == sig_valid(*pk, eph@, *data, *dst, sig@) { unimplemented!() }
    #[verifier::external_body]
    pub fn derive_keys_from_pubkey(k: &RwLockReadGuard<CombinedKey>, l: &NodeId, r: &NodeId, d: &ChallengeData, e: &[u8]) -> Result<([u8;16],[u8;16]), Error> { unimplemented!() }
}

// ---- mechanically extracted: src/handler/session.rs :: Session::establish_from_challenge ----
impl Session {
    pub(crate) fn establish_from_challenge(
        local_key: Arc<RwLock<CombinedKey>>,
        local_id: &NodeId,
        remote_id: &NodeId,
        challenge: Challenge,
        id_nonce_sig: &[u8],
        ephem_pubkey: &[u8],
        enr_record: Option<Enr>,
    ) -> (res: Result<(Session, Enr), Error>)
        ensures
            res matches Ok((s, enr)) ==> sig_valid(enr_pubkey(&enr), ephem_pubkey@, challenge.data, *local_id, id_nonce_sig@),
            res matches Ok((s, enr)) ==> enr_node_id(&enr) == *remote_id,
    {
        // check and verify a potential ENR update

        // Duplicate code here to avoid cloning an ENR
        let remote_public_key = {
            let enr = match (enr_record.as_ref(), challenge.remote_enr.as_ref()) {
                (Some(new_enr), Some(known_enr)) => {
                    if new_enr.seq() > known_enr.seq() {
                        new_enr
                    } else {
                        known_enr
                    }
                }
                (Some(new_enr), None) => new_enr,
                (None, Some(known_enr)) => known_enr,
                (None, None) => {
                    return Err(Error::SessionNotEstablished);
                }
            };
            enr.public_key()
        };

        // verify the auth header nonce
        if !crypto::verify_authentication_nonce(
            &remote_public_key,
            ephem_pubkey,
            &challenge.data,
            local_id,
            id_nonce_sig,
        ) {
            return Err(Error::InvalidChallengeSignature(Box::new(challenge)));
        }

        // generate session keys
        let (decryption_key, encryption_key) = crypto::derive_keys_from_pubkey(
            &local_key.read(),
            local_id,
            remote_id,
            &challenge.data,
            ephem_pubkey,
        )?;

        let keys = Keys {
            encryption_key,
            decryption_key,
        };

        let session_enr = match (enr_record, challenge.remote_enr) {
            (Some(new_enr), Some(known_enr)) => {
                if new_enr.seq() > known_enr.seq() {
                    new_enr
                } else {
                    known_enr
                }
            }
            (Some(new_enr), None) => new_enr,
            (None, Some(known_enr)) => known_enr,
            (None, None) => unreachable!("Checked in the first match above"),
        };

        Ok((Session::new(keys), session_enr))
    }
}

} // verus!
fn main() {}
