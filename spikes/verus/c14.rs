use vstd::prelude::*;
verus! {
#[verifier::external_body] pub struct Enr { _p: () }
pub uninterp spec fn enr_size(e: &Enr) -> nat;
pub const MAX_PACKET_SIZE: usize = 1280;
pub mod alloy_rlp {
    use super::*;
    #[verifier::external_body]
    pub fn encode(e: &Enr) -> (r: Vec<u8>) ensures r@.len() == enr_size(e), 1 <= r@.len() <= 300 { unimplemented!() }
}
pub open spec fn sum_sizes(s: Seq<Enr>) -> nat decreases s.len() { if s.len() == 0 { 0 } else { sum_sizes(s.drop_last()) + enr_size(&s.last()) } }

// ---- extracted block: Service::send_nodes_response, `let mut to_send_nodes` .. end of `for` ----
fn split_block(nodes_to_send: Vec<Enr>) -> (r: (Vec<Vec<Enr>>, usize))
    ensures r.0@.len() == r.1 + 1,
            forall|i: int| 0 <= i < r.0@.len() ==> sum_sizes(#[trigger] r.0@[i]@) <= 1175,
{
            let mut to_send_nodes: Vec<Vec<Enr>> = Vec::new();
            let mut total_size = 0;
            let mut rpc_index = 0;
            to_send_nodes.push(Vec::new());
            for enr in nodes_to_send.into_iter() {
                let entry_size = alloy_rlp::encode(&enr).len();
                if entry_size + total_size < MAX_PACKET_SIZE - 104 {
                    total_size += entry_size;
                    to_send_nodes[rpc_index].push(enr);
                } else {
                    total_size = entry_size;
                    to_send_nodes.push(vec![enr]);
                    rpc_index += 1;
                }
            }
    (to_send_nodes, rpc_index)
}
} // verus!
fn main() {}
