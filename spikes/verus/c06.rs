
use vstd::prelude::*;
verus! {
pub enum DecoderError { InputTooShort, Custom(&'static str) }
pub struct Header { pub list: bool, pub payload_length: usize }
pub uninterp spec fn hdr_len(h: Header) -> nat;
impl Header {
    #[verifier::external_body]
    pub fn decode(buf: &mut &[u8]) -> (r: Result<Header, DecoderError>)
        ensures r matches Ok(h) ==> old(buf)@.len() >= final(buf)@.len() && h.payload_length <= final(buf)@.len()
                    && final(buf)@ == old(buf)@.subrange(old(buf)@.len() - final(buf)@.len(), old(buf)@.len() as int),
    { unimplemented!() }
    #[verifier::external_body]
    pub fn length_with_payload(&self) -> (r: usize) ensures r >= self.payload_length { unimplemented!() }
}
#[verifier::external_body] pub struct Bytes { _p: () }
impl Bytes {
    pub uninterp spec fn view(&self) -> Seq<u8>;
    #[verifier::external_body] pub fn decode(buf: &mut &[u8]) -> (r: Result<Bytes, DecoderError>)
        ensures r is Ok ==> final(buf)@.len() <= old(buf)@.len() { unimplemented!() }
    #[verifier::external_body] pub fn to_vec(&self) -> (r: Vec<u8>) ensures r@ == self@ { unimplemented!() }
    #[verifier::external_body] pub fn len(&self) -> (r: usize) ensures r == self@.len() { unimplemented!() }
}
#[verifier::external_body] pub fn u64_decode(buf: &mut &[u8]) -> (r: Result<u64, DecoderError>) ensures r is Ok ==> final(buf)@.len() <= old(buf)@.len() { unimplemented!() }
pub struct RequestId(pub Vec<u8>);
impl RequestId {
    pub fn decode(data: Vec<u8>) -> (r: Result<Self, DecoderError>)
        ensures r is Ok ==> data@.len() <= 8
    {
        if data.len() > 8 {
            return Err(DecoderError::Custom("Invalid ID length"));
        }
        Ok(RequestId(data))
    }
}
pub enum RequestBody { Ping { enr_seq: u64 }, Other }
pub struct Request { pub id: RequestId, pub body: RequestBody }
pub enum Message { Request(Request), Other }

fn decode_prefix(data: &[u8]) -> (r: Result<Message, DecoderError>)
{
        if data.len() < 3 {
            return Err(DecoderError::InputTooShort);
        }

        let msg_type = data[0];

        let payload = &mut &data[1..];

        let header = Header::decode(payload)?;
        if !header.list {
            return Err(DecoderError::Custom("Invalid format of header"));
        }

        if header.payload_length != payload.len() {
            return Err(DecoderError::Custom("Reject the extra data"));
        }

        let id_bytes = Bytes::decode(payload)?;
        let id = RequestId::decode(id_bytes.to_vec())?;

        let message = match msg_type {
            1 => {
                // PingRequest
                let enr_seq = u64_decode(payload)?;
                if !payload.is_empty() {
                    return Err(DecoderError::Custom("Payload should be empty"));
                }
                Message::Request(Request {
                    id,
                    body: RequestBody::Ping { enr_seq },
                })
            }
            _ => {
                return Err(DecoderError::Custom("Unknown RPC message type"));
            }
        };

        Ok(message)
}
}
fn main(){}
