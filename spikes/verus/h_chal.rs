
use vstd::prelude::*;
use std::sync::Arc;
verus! {
#[verifier::external_body] #[verifier::reject_recursive_types(T)] pub struct RwLock<T> { _p: core::marker::PhantomData<T> }
#[verifier::external_body] #[verifier::reject_recursive_types(T)] pub struct Guard<T> { _p: core::marker::PhantomData<T> }
#[verifier::external_body] pub struct CombinedKey { _p: () }
#[verifier::external_body] pub struct Enr { _p: () }
#[verifier::external_body] pub struct ChallengeData { _p: () }
#[verifier::external_body] pub struct NodeContact { _p: () }
#[verifier::external_body] pub struct RequestCall { _p: () }
#[verifier::external_body] pub struct ActiveRequests { _p: () }
#[verifier::external_body] pub struct Sender { _p: () }
#[derive(Clone, Copy)] pub struct ProtocolIdentity { pub a: u64 }
#[derive(PartialEq, Eq, Clone, Copy)] pub struct NodeId(pub [u8; 32]);
#[derive(PartialEq, Eq, Clone, Copy)] pub struct SocketAddr(pub u64);
#[derive(PartialEq, Eq)] pub struct NodeAddress { pub socket_addr: SocketAddr, pub node_id: NodeId }
pub type MessageNonce = [u8; 12];
pub struct PacketHeader { pub message_nonce: MessageNonce }
pub struct Packet { pub header: PacketHeader }
pub struct RequestId(pub Vec<u8>);
pub enum RequestBody { FindNode { distances: Vec<u64> }, Ping { enr_seq: u64 } }
pub enum HandlerReqId { Internal(RequestId), External(RequestId) }
pub struct Session { pub awaiting_enr: Option<RequestId>, pub k: u64 }
pub enum ConnectionDirection { Incoming, Outgoing }
pub enum RequestError { InvalidRemotePacket, InvalidRemoteEnr, Timeout, SelfRequest }
pub enum Error { SessionNotEstablished, Custom }
pub enum HandlerOut { Established(Enr, SocketAddr, ConnectionDirection), RequestFailed(RequestId, RequestError) }
pub struct SendError;

impl Clone for NodeAddress { fn clone(&self) -> (r: Self) ensures r == *self { NodeAddress { socket_addr: self.socket_addr, node_id: self.node_id } } }
impl Clone for Packet { fn clone(&self) -> (r: Self) ensures r == *self { Packet { header: PacketHeader { message_nonce: self.header.message_nonce } } } }
impl Clone for RequestId { #[verifier::external_body] fn clone(&self) -> (r: Self) ensures r == *self { unimplemented!() } }
impl RequestId { #[verifier::external_body] pub fn random() -> Self { unimplemented!() } }
impl Clone for Enr { #[verifier::external_body] fn clone(&self) -> (r: Self) ensures r == *self { unimplemented!() } }
impl Enr { #[verifier::external_body] pub fn seq(&self) -> u64 { unimplemented!() } }
impl<T> RwLock<T> { #[verifier::external_body] pub fn read(&self) -> (r: &T) { unimplemented!() } }
impl Clone for NodeContact { #[verifier::external_body] fn clone(&self) -> (r: Self) ensures r == *self { unimplemented!() } }
impl NodeContact {
    pub uninterp spec fn addr(&self) -> NodeAddress;
    #[verifier::external_body] pub fn node_address(&self) -> (r: NodeAddress) ensures r == self.addr() { unimplemented!() }
    #[verifier::external_body] pub fn enr(&self) -> Option<Enr> { unimplemented!() }
}
impl Packet { pub fn message_nonce(&self) -> (r: &MessageNonce) ensures *r == self.header.message_nonce { &self.header.message_nonce } }
impl RequestCall {
    pub uninterp spec fn nonce(&self) -> MessageNonce;
    pub uninterp spec fn hs_sent(&self) -> bool;
    pub uninterp spec fn caddr(&self) -> NodeAddress;
    #[verifier::external_body] pub fn packet(&self) -> (r: &Packet) ensures r.header.message_nonce == self.nonce() { unimplemented!() }
    #[verifier::external_body] pub fn handshake_sent(&self) -> (r: bool) ensures r == self.hs_sent() { unimplemented!() }
    #[verifier::external_body] pub fn contact(&self) -> (r: &NodeContact) ensures r.addr() == self.caddr() { unimplemented!() }
    #[verifier::external_body] pub fn encode(&self) -> Vec<u8> { unimplemented!() }
    #[verifier::external_body] pub fn initiating_session(&self) -> bool { unimplemented!() }
    #[verifier::external_body] pub fn update_packet(&mut self, p: Packet) ensures final(self).nonce() == p.header.message_nonce, final(self).caddr() == old(self).caddr(), final(self).hs_sent() == old(self).hs_sent() { unimplemented!() }
    #[verifier::external_body] pub fn set_handshake_sent(&mut self) ensures final(self).nonce() == old(self).nonce(), final(self).caddr() == old(self).caddr(), final(self).hs_sent() { unimplemented!() }
    #[verifier::external_body] pub fn set_initiating_session(&mut self, s: bool) ensures final(self).nonce() == old(self).nonce(), final(self).caddr() == old(self).caddr(), final(self).hs_sent() == old(self).hs_sent() { unimplemented!() }
}
impl ActiveRequests {
    // abstract view: nonce -> (address, call)
    pub uninterp spec fn view(&self) -> Map<MessageNonce, (NodeAddress, RequestCall)>;
    #[verifier::external_body]
    pub fn remove_by_nonce(&mut self, nonce: &MessageNonce) -> (r: Option<(NodeAddress, RequestCall)>)
        ensures final(self)@ == old(self)@.remove(*nonce),
                r == (if old(self)@.contains_key(*nonce) { Some(old(self)@[*nonce]) } else { None::<(NodeAddress, RequestCall)> }),
                r matches Some((a, c)) ==> c.nonce() == *nonce && c.caddr() == a,
    { unimplemented!() }
    #[verifier::external_body]
    pub fn insert(&mut self, a: NodeAddress, c: RequestCall)
        ensures final(self)@ == old(self)@.insert(c.nonce(), (a, c)),
    { unimplemented!() }
}
impl Sender {
    pub uninterp spec fn log(&self) -> Seq<HandlerOut>;
    #[verifier::external_body] pub fn send(&mut self, m: HandlerOut) -> (r: Result<(), SendError>) ensures final(self).log() == old(self).log().push(m) { unimplemented!() }
}
impl Session {
    #[verifier::external_body]
    pub fn encrypt_with_header(c: &NodeContact, k: Arc<RwLock<CombinedKey>>, e: Option<Enr>, id: &NodeId, p: ProtocolIdentity, d: &ChallengeData, m: &[u8]) -> Result<(Packet, Session), Error> { unimplemented!() }
}
pub struct Handler {
    pub node_id: NodeId,
    pub protocol_identity: ProtocolIdentity,
    pub enr: Arc<RwLock<Enr>>,
    pub key: Arc<RwLock<CombinedKey>>,
    pub active_requests: ActiveRequests,
    pub service_send: Sender,
    pub ghost_exempt: Ghost<Map<SocketAddr, nat>>,
    pub ghost_wire: Ghost<Seq<(NodeAddress, Packet)>>,
}
impl Handler {
    pub open spec fn exempt(&self) -> Map<SocketAddr, nat> { self.ghost_exempt@ }
    pub open spec fn wire(&self) -> Seq<(NodeAddress, Packet)> { self.ghost_wire@ }
    #[verifier::external_body]
    fn fail_request(&mut self, request_call: RequestCall, error: RequestError, remove_session: bool)
        ensures final(self).wire() == old(self).wire(),
    { unimplemented!() }
    #[verifier::external_body]
    fn insert_active_request(&mut self, request_call: RequestCall)
        ensures final(self).active_requests@ == old(self).active_requests@.insert(request_call.nonce(), (request_call.caddr(), request_call)),
                final(self).wire() == old(self).wire(), final(self).exempt() == old(self).exempt(), final(self).service_send == old(self).service_send,
    { unimplemented!() }
    #[verifier::external_body]
    fn send(&mut self, node_address: NodeAddress, packet: Packet)
        ensures final(self).wire() == old(self).wire().push((node_address, packet)), final(self).active_requests == old(self).active_requests,
                final(self).exempt() == old(self).exempt(), final(self).service_send == old(self).service_send,
    { unimplemented!() }
    #[verifier::external_body]
    fn send_request(&mut self, contact: NodeContact, request_id: HandlerReqId, request: RequestBody) -> Result<(), RequestError> { unimplemented!() }
    #[verifier::external_body]
    fn new_session(&mut self, node_address: NodeAddress, session: Session, message_nonce: Option<MessageNonce>) { unimplemented!() }

    // ---- extracted: Handler::handle_challenge (R1, R1b, R2) ----
    fn handle_challenge(
        &mut self,
        src_address: SocketAddr,
        request_nonce: MessageNonce,
        enr_seq: u64,
        challenge_data: ChallengeData,
    )
        ensures
            // C03.nonce: a WHOAREYOU that matches no in-flight request (or comes from another address) changes nothing
            (!old(self).active_requests@.contains_key(request_nonce)
              || old(self).active_requests@[request_nonce].0.socket_addr != src_address) ==> (
                final(self).active_requests@ == old(self).active_requests@
                && final(self).wire() == old(self).wire()
                && final(self).service_send.log() == old(self).service_send.log()
                && final(self).exempt() == old(self).exempt()),
            // C03.once: a request that already carried a handshake is never answered with a second one
            (old(self).active_requests@.contains_key(request_nonce)
              && old(self).active_requests@[request_nonce].1.hs_sent()) ==> final(self).wire() == old(self).wire(),
    {
        // Check that this challenge matches a known active request.
        // If this message passes all the requisite checks, a request call is returned.
        let mut request_call = match self.active_requests.remove_by_nonce(&request_nonce) {
            Some((node_address, request_call)) => {
                // Verify that the src_addresses match
                if node_address.socket_addr != src_address {
                    
                    // Add the request back if src_address doesn't match
                    self.active_requests.insert(node_address, request_call);
                    return;
                }
                request_call
            }
            None => {
                
                return;
            }
        };

        // double check the message nonces match
        if request_call.packet().message_nonce() != &request_nonce {
            // This could theoretically happen if a peer uses the same node id across
            // different connections.
            
            // NOTE: Both mappings are removed in this case.
            return;
        }

        

        // We do not allow multiple WHOAREYOU packets for a single challenge request. If we have
        // already sent a WHOAREYOU ourselves, we drop sessions who send us a WHOAREYOU in
        // response.
        if request_call.handshake_sent() {
            
            self.fail_request(request_call, RequestError::InvalidRemotePacket, true);
            return;
        }

        // Encrypt the message with an auth header and respond

        // First if a new version of our ENR is requested, obtain it for the header
        let updated_enr = if enr_seq < self.enr.read().seq() {
            Some(self.enr.read().clone())
        } else {
            None
        };

        // Generate a new session and authentication packet
        let (auth_packet, mut session) = match Session::encrypt_with_header(
            request_call.contact(),
            self.key.clone(),
            updated_enr,
            &self.node_id,
            self.protocol_identity,
            &challenge_data,
            &request_call.encode(),
        ) {
            Ok(v) => v,
            Err(e) => {
                
                self.fail_request(request_call, RequestError::InvalidRemotePacket, true)
                    ;
                return;
            }
        };

        // There are two quirks with an established session at this point.
        // 1. We may not know the ENR. In this case we need to set up a request to find the ENR and
        //    wait for a response before we officially call this node established.
        // 2. The challenge here could be to an already established session. If so, we need to
        //    update the existing session to attempt to decrypt future messages with the new keys
        //    and update the keys internally upon successful decryption.
        //
        // We handle both of these cases here.

        // Check if we know the ENR, if not request it and flag the session as awaiting an ENR.
        //
        // All sent requests must have an associated node_id. Therefore the following
        // must not panic.
        let node_address = request_call.contact().node_address();
        let auth_message_nonce = auth_packet.header.message_nonce;
        match request_call.contact().enr() {
            Some(enr) => {
                // NOTE: Here we decide if the session is outgoing or ingoing. The condition for an
                // outgoing session is that we originally sent a RANDOM packet (signifying we did
                // not have a session for a request) and the packet is not a PING (we are not
                // trying to update an old session that may have expired.
                let connection_direction = if request_call.initiating_session() {
                    ConnectionDirection::Outgoing
                } else {
                    ConnectionDirection::Incoming
                };

                // We already know the ENR. Send the handshake response packet
                
                request_call.update_packet(auth_packet.clone());
                request_call.set_handshake_sent();
                request_call.set_initiating_session(false);
                // Reinsert the request_call
                self.insert_active_request(request_call);
                // Send the actual packet to the send task.
                self.send(node_address.clone(), auth_packet);

                // Notify the application that the session has been established
                self.service_send
                    .send(HandlerOut::Established(
                        enr,
                        node_address.socket_addr,
                        connection_direction,
                    ))
                    
                    ;
            }
            None => {
                // Don't know the ENR. Establish the session, but request an ENR also

                // Send the Auth response
                let contact = request_call.contact().clone();
                
                request_call.update_packet(auth_packet.clone());
                request_call.set_handshake_sent();
                // Reinsert the request_call
                self.insert_active_request(request_call);
                self.send(node_address.clone(), auth_packet);

                let id = RequestId::random();
                let request = RequestBody::FindNode { distances: vec![0] };
                session.awaiting_enr = Some(id.clone());
                if let Err(e) = self
                    .send_request(contact, HandlerReqId::Internal(id), request)
                    
                {
                    ()
                }
            }
        }
        self.new_session(node_address.clone(), session, Some(auth_message_nonce))
            ;
    }
}
} // verus!
fn main() {}
