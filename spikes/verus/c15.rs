use vstd::prelude::*;
verus! {
#[verifier::external_body] #[derive(Clone, Copy)] pub struct Instant { _p: () }
#[verifier::external_body] #[derive(Clone, Copy)] pub struct Duration { _p: () }
impl Instant {
    pub uninterp spec fn t(&self) -> int;
    #[verifier::external_body] pub fn now() -> Instant { unimplemented!() }
}
pub mod hashlink { pub mod linked_hash_map {
    use super::super::*;
    #[verifier::external_body] #[verifier::reject_recursive_types(K)] #[verifier::reject_recursive_types(V)]
    pub struct OccupiedEntry<'a, K, V> { _p: core::marker::PhantomData<&'a mut (K, V)> }
    #[verifier::external_body] #[verifier::reject_recursive_types(K)] #[verifier::reject_recursive_types(V)]
    pub struct VacantEntry<'a, K, V> { _p: core::marker::PhantomData<&'a mut (K, V)> }
    #[verifier::reject_recursive_types(K)] #[verifier::reject_recursive_types(V)]
    pub enum RawEntryMut<'a, K, V> { Occupied(OccupiedEntry<'a, K, V>), Vacant(VacantEntry<'a, K, V>) }
    #[verifier::external_body] #[verifier::reject_recursive_types(K)] #[verifier::reject_recursive_types(V)]
    pub struct RawEntryBuilderMut<'a, K, V> { _p: core::marker::PhantomData<&'a mut (K, V)> }
    impl<'a, K, V> RawEntryBuilderMut<'a, K, V> {
        #[verifier::external_body] pub fn from_key(self, k: &K) -> RawEntryMut<'a, K, V> { unimplemented!() }
    }
    impl<'a, K, V> OccupiedEntry<'a, K, V> {
        #[verifier::external_body] pub fn get_mut(&mut self) -> &mut V { unimplemented!() }
        #[verifier::external_body] pub fn to_back(&mut self) { unimplemented!() }
        #[verifier::external_body] pub fn into_mut(self) -> &'a mut V { unimplemented!() }
    }
}}
#[verifier::external_body] #[verifier::reject_recursive_types(K)] #[verifier::reject_recursive_types(V)]
pub struct LinkedHashMap<K, V> { _p: core::marker::PhantomData<(K, V)> }
impl<K, V> LinkedHashMap<K, V> {
    #[verifier::external_body] pub fn raw_entry_mut(&mut self) -> hashlink::linked_hash_map::RawEntryBuilderMut<'_, K, V> { unimplemented!() }
}
#[verifier::reject_recursive_types(K)] #[verifier::reject_recursive_types(V)]
pub struct LruTimeCache<K, V> {
    map: LinkedHashMap<K, (V, Instant)>,
    ttl: Duration,
    capacity: usize,
}
impl<K: Clone, V> LruTimeCache<K, V> {
    pub fn get_mut(&mut self, key: &K) -> Option<&mut V> {
        let now = Instant::now();

        match self.map.raw_entry_mut().from_key(key) {
            hashlink::linked_hash_map::RawEntryMut::Occupied(mut occupied) => {
                occupied.get_mut().1 = now;
                occupied.to_back();
                Some(&mut occupied.into_mut().0)
            }
            hashlink::linked_hash_map::RawEntryMut::Vacant(_) => None,
        }
    }
}
}
fn main(){}
