
use vstd::prelude::*;
verus! {
pub type MessageNonce = [u8; 12];
#[derive(PartialEq, Eq, Clone, Copy)] pub struct NodeId(pub [u8; 32]);
#[derive(PartialEq, Eq, Clone, Copy)] pub struct SocketAddr(pub u64);
#[derive(PartialEq, Eq)] pub struct NodeAddress { pub socket_addr: SocketAddr, pub node_id: NodeId }
impl Clone for NodeAddress { fn clone(&self) -> (r: Self) ensures r == *self { NodeAddress { socket_addr: self.socket_addr, node_id: self.node_id } } }
#[derive(PartialEq, Eq)] pub struct RequestId(pub Vec<u8>);
pub enum HandlerReqId { Internal(RequestId), External(RequestId) }
pub struct PacketHeader { pub message_nonce: MessageNonce }
pub struct Packet { pub header: PacketHeader }
impl Packet { pub fn message_nonce(&self) -> (r: &MessageNonce) ensures *r == self.header.message_nonce { &self.header.message_nonce } }
#[verifier::external_body] pub struct RequestCall { _p: () }
impl RequestCall {
    pub uninterp spec fn nonce(&self) -> MessageNonce;
    #[verifier::external_body] pub fn packet(&self) -> (r: &Packet) ensures r.header.message_nonce == self.nonce() { unimplemented!() }
    #[verifier::external_body] pub fn id(&self) -> (r: &HandlerReqId) { unimplemented!() }
}
impl<'a> From<&'a HandlerReqId> for RequestId { #[verifier::external_body] fn from(id: &'a HandlerReqId) -> RequestId { unimplemented!() } }

// std HashMap<NodeAddress, Vec<RequestCall>> with the entry API (assumed contracts)
#[verifier::external_body] pub struct HashMap { _p: () }
#[verifier::external_body] pub struct OccupiedEntry<'a> { _p: core::marker::PhantomData<&'a mut u8> }
#[verifier::external_body] pub struct VacantEntry<'a> { _p: core::marker::PhantomData<&'a mut u8> }
pub enum Entry<'a> { Occupied(OccupiedEntry<'a>), Vacant(VacantEntry<'a>) }
impl HashMap {
    pub uninterp spec fn view(&self) -> Map<NodeAddress, Seq<RequestCall>>;
    #[verifier::external_body] pub fn entry(&mut self, k: NodeAddress) -> Entry<'_> { unimplemented!() }
    #[verifier::external_body] pub fn remove(&mut self, k: &NodeAddress) -> Option<Vec<RequestCall>> { unimplemented!() }
}
impl<'a> Entry<'a> { #[verifier::external_body] pub fn or_default(self) -> &'a mut Vec<RequestCall> { unimplemented!() } }
impl<'a> OccupiedEntry<'a> {
    #[verifier::external_body] pub fn get(&self) -> &Vec<RequestCall> { unimplemented!() }
    #[verifier::external_body] pub fn get_mut(&mut self) -> &mut Vec<RequestCall> { unimplemented!() }
    #[verifier::external_body] pub fn remove(self) -> Vec<RequestCall> { unimplemented!() }
}
#[verifier::external_body] pub struct HashMapDelay { _p: () }
impl HashMapDelay {
    pub uninterp spec fn view(&self) -> Map<MessageNonce, NodeAddress>;
    #[verifier::external_body] pub fn insert(&mut self, k: MessageNonce, v: NodeAddress) ensures final(self)@ == old(self)@.insert(k, v) { unimplemented!() }
    #[verifier::external_body] pub fn remove(&mut self, k: &MessageNonce) -> (r: Option<NodeAddress>) ensures final(self)@ == old(self)@.remove(*k) { unimplemented!() }
}
#[verifier::external_body]
pub fn verif_position<T, P: Fn(&T) -> bool>(v: &Vec<T>, p: P) -> (r: Option<usize>)
    ensures r matches Some(i) ==> i < v@.len() && p.ensures((&v@[i as int],), true),
{ unimplemented!() }
pub struct ActiveRequests {
    active_requests_mapping: HashMap,
    active_requests_nonce_mapping: HashMapDelay,
}
impl ActiveRequests {
    pub fn insert(&mut self, node_address: NodeAddress, request_call: RequestCall) {
        let nonce = *request_call.packet().message_nonce();
        self.active_requests_mapping
            .entry(node_address.clone())
            .or_default()
            .push(request_call);
        self.active_requests_nonce_mapping
            .insert(nonce, node_address);
    }
    pub fn remove_by_nonce(&mut self, nonce: &MessageNonce) -> Option<(NodeAddress, RequestCall)> {
        let node_address = self.active_requests_nonce_mapping.remove(nonce)?;
        match self.active_requests_mapping.entry(node_address.clone()) {
            Entry::Vacant(_) => {
                assert(false);
                
                None
            }
            Entry::Occupied(mut requests) => {
                let result = verif_position(requests.get(), |req| req.packet().message_nonce() == nonce)
                    .map(|index| (node_address, requests.get_mut().remove(index)));
                if requests.get().is_empty() {
                    requests.remove();
                }
                result
            }
        }
    }
    pub fn remove_request(
        &mut self,
        node_address: &NodeAddress,
        id: &RequestId,
    ) -> Option<RequestCall> {
        match self.active_requests_mapping.entry(node_address.clone()) {
            Entry::Vacant(_) => None,
            Entry::Occupied(mut requests) => {
                let index = verif_position(requests.get(), |req| {
                    let req_id: RequestId = req.id().into();
                    &req_id == id
                })?;
                let request_call = requests.get_mut().remove(index);
                if requests.get().is_empty() {
                    requests.remove();
                }
                // Remove the associated nonce mapping.
                self.active_requests_nonce_mapping
                    .remove(request_call.packet().message_nonce());
                Some(request_call)
            }
        }
    }
    pub fn remove_requests(&mut self, node_address: &NodeAddress) -> Option<Vec<RequestCall>> {
        let requests = self.active_requests_mapping.remove(node_address)?;
        // Account for node addresses in `active_requests_nonce_mapping` with an empty list
        if requests.is_empty() {
            assert(false);
            return None;
        }
        for req in &requests {
            if self
                .active_requests_nonce_mapping
                .remove(req.packet().message_nonce())
                .is_none()
            {
                assert(false);
                
            }
        }
        Some(requests)
    }
}
}
fn main(){}
