use vstd::prelude::*;
verus! {
#[verifier::external_body] pub struct Enr { _p: () }
#[derive(Clone, Copy)] pub struct Ipv4Addr(pub [u8; 4]);
impl Ipv4Addr { pub fn octets(&self) -> (r: [u8; 4]) ensures r == self.0 { self.0 } }
impl Enr {
    pub uninterp spec fn sip4(&self) -> Option<Ipv4Addr>;
    #[verifier::external_body] pub fn ip4(&self) -> (r: Option<Ipv4Addr>) ensures r == self.sip4() { unimplemented!() }
}
impl PartialEq for Enr { #[verifier::external_body] fn eq(&self, o: &Enr) -> bool { unimplemented!() } }

#[verifier::external_body]
pub struct ValIter<'a> { _p: core::marker::PhantomData<&'a Enr> }
impl<'a> Iterator for ValIter<'a> {
    type Item = &'a Enr;
    #[verifier::external_body]
    fn next(&mut self) -> Option<&'a Enr> { unimplemented!() }
}

#[verifier::exec_allows_no_decreases_clause]
fn ip_filter(
    value_to_be_inserted: &Enr,
    other_vals: &mut ValIter<'_>,
    limit: usize,
) -> bool {
    if let Some(ip) = value_to_be_inserted.ip4() {
        let mut count = 0;
        loop { let enr = match other_vals.next() { Some(x) => x, None => break };
            // Ignore duplicates
            if enr == value_to_be_inserted {
                continue;
            }

            // Count the same /24 subnet
            if let Some(other_ip) = enr.ip4() {
                if other_ip.octets()[0..3] == ip.octets()[0..3] {
                    count += 1;
                }
            }
            if count >= limit {
                return false;
            }
        }
    }
    // No IP, so no restrictions
    true
}
}
fn main(){}
