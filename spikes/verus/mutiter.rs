use vstd::prelude::*;
verus! {
#[verifier::external_body]
pub struct Bag { _p: () }
#[verifier::external_body]
pub struct It<'a> { _p: core::marker::PhantomData<&'a mut u64> }
impl Bag {
    pub uninterp spec fn view(&self) -> Seq<u64>;
    #[verifier::external_body]
    pub fn values_mut(&mut self) -> (it: It<'_>)
        ensures it.rest() == old(self)@, it.done() == Seq::<u64>::empty(),
                // prophecy carried by the iterator: the bag's state when the borrow ends
                it.proph() == final(self)@,
    { unimplemented!() }
}
pub uninterp spec fn final_it_done(it: It<'_>) -> Seq<u64>;
pub uninterp spec fn final_it_rest(it: It<'_>) -> Seq<u64>;
impl<'a> It<'a> {
    pub uninterp spec fn rest(&self) -> Seq<u64>;
    pub uninterp spec fn proph(&self) -> Seq<u64>;
    /// trusted: may only be invoked at a point after which `self` is never used again
    #[verifier::external_body]
    pub proof fn resolve(&self) ensures self.proph() == self.done() + self.rest() { }
    pub uninterp spec fn done(&self) -> Seq<u64>;
    #[verifier::external_body]
    pub fn next(&mut self) -> (r: Option<&'a mut u64>)
        ensures old(self).rest().len() == 0 ==> r is None && final(self).rest() == old(self).rest() && final(self).done() == old(self).done(),
                final(self).proph() == old(self).proph(),
                old(self).rest().len() > 0 ==> (r matches Some(p) && *p == old(self).rest()[0]
                    && final(self).rest() == old(self).rest().skip(1)
                    && final(self).done() == old(self).done().push(*final(p))),
    { unimplemented!() }
}
fn zero_all(b: &mut Bag)
    ensures final(b)@.len() == old(b)@.len(),
            forall|i: int| 0 <= i < final(b)@.len() ==> final(b)@[i] == 0,
{
    let mut it = b.values_mut();
    let ghost proph0 = it.proph();
    loop
        invariant it.done().len() + it.rest().len() == old(b)@.len(),
                  it.proph() == proph0,
                  forall|i: int| 0 <= i < it.done().len() ==> it.done()[i] == 0,
        ensures it.rest().len() == 0,
        decreases it.rest().len(),
    {
        let p = match it.next() { Some(x) => x, None => break };
        *p = 0;
    }
    proof { it.resolve(); assert(b@ == proph0); }
}
}
fn main(){}
