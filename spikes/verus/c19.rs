use vstd::prelude::*;
verus! {
pub const MESSAGE_NONCE_LENGTH: usize = 12;
pub type MessageNonce = [u8; MESSAGE_NONCE_LENGTH];
#[derive(PartialEq, Eq, Clone, Copy)] pub struct NodeId(pub [u8; 32]);
#[derive(Clone, Copy)] pub struct ProtocolIdentity { pub a: u64 }
pub enum PacketKind { Message { src_id: NodeId }, Other }
pub struct PacketHeader { pub message_nonce: MessageNonce, pub kind: PacketKind, pub protocol_identity: ProtocolIdentity }
pub struct Packet { pub iv: u128, pub header: PacketHeader, pub message: Vec<u8> }
pub struct Keys { pub encryption_key: [u8; 16], pub decryption_key: [u8; 16] }
pub struct RequestId(pub Vec<u8>);
pub struct Session { keys: Keys, old_keys: Option<Keys>, pub awaiting_enr: Option<RequestId>, counter: u32 }
pub enum Error { Enc }

pub uninterp spec fn be32(x: u32) -> Seq<u8>;
pub uninterp spec fn hdr_bytes(h: PacketHeader) -> Seq<u8>;
pub uninterp spec fn u128_be(x: u128) -> Seq<u8>;
pub uninterp spec fn gcm_seal(k: [u8;16], n: MessageNonce, m: Seq<u8>, aad: Seq<u8>) -> Seq<u8>;

#[verifier::external_body] pub fn std_u32_to_be_bytes(x: u32) -> (r: [u8; 4]) ensures r@ == be32(x) { x.to_be_bytes() }
#[verifier::external_body] pub fn std_u128_to_be_bytes(x: u128) -> (r: [u8; 16]) ensures r@ == u128_be(x) { x.to_be_bytes() }
pub assume_specification<T: Clone> [<[T]>::to_vec] (s: &[T]) -> (r: Vec<T>) ensures r@ == s@;
pub mod rand {
    use super::*;
    #[verifier::external_body] pub fn random<T>() -> T { unimplemented!() }
}
pub mod crypto {
    use super::*;
    #[verifier::external_body]
    pub fn encrypt_message(key: &[u8;16], nonce: MessageNonce, msg: &[u8], aad: &[u8]) -> (r: Result<Vec<u8>, Error>)
        ensures r matches Ok(c) ==> c@ == gcm_seal(*key, nonce, msg@, aad@) { unimplemented!() }
}
impl PacketHeader { #[verifier::external_body] pub fn encode(&self) -> (r: Vec<u8>) ensures r@ == hdr_bytes(*self) { unimplemented!() } }

impl Session {
    // ---- extracted: Session::encrypt_message ----
    pub(crate) fn encrypt_message(
        &mut self,
        src_id: NodeId,
        message: &[u8],
        protocol_identity: ProtocolIdentity,
    ) -> (res: Result<Packet, Error>)
        requires old(self).counter < u32::MAX,
        ensures final(self).counter == old(self).counter + 1,
                res matches Ok(p) ==> p.header.message_nonce@.subrange(0, 4) == be32(final(self).counter),
    {
        self.counter += 1;

        let random_nonce: [u8; MESSAGE_NONCE_LENGTH - 4] = rand::random();
        let mut message_nonce: MessageNonce = [0u8; MESSAGE_NONCE_LENGTH];
        message_nonce[..4].copy_from_slice(&std_u32_to_be_bytes(self.counter));
        message_nonce[4..].copy_from_slice(&random_nonce);

        let iv: u128 = rand::random();
        let header = PacketHeader {
            message_nonce,
            kind: PacketKind::Message { src_id },
            protocol_identity,
        };

        let mut authenticated_data = std_u128_to_be_bytes(iv).to_vec();
        authenticated_data.extend_from_slice(&header.encode());

        let cipher = crypto::encrypt_message(
            &self.keys.encryption_key,
            message_nonce,
            message,
            &authenticated_data,
        )?;

        Ok(Packet {
            iv,
            header,
            message: cipher,
        })
    }
}
} // verus!
fn main() {}
