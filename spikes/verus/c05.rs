
use vstd::prelude::*;
verus! {
pub const IV_LENGTH: usize = 16;
pub const STATIC_HEADER_LENGTH: usize = 23;
pub const MESSAGE_NONCE_LENGTH: usize = 12;
pub const ID_NONCE_LENGTH: usize = 16;
pub const MAX_PACKET_SIZE: usize = 1280;
pub const MIN_PACKET_SIZE: usize = IV_LENGTH + STATIC_HEADER_LENGTH + 24;
pub type MessageNonce = [u8; MESSAGE_NONCE_LENGTH];
#[derive(Clone, Copy, PartialEq, Eq)]
pub struct ProtocolIdentity { pub protocol_id: [u8; 6], pub protocol_version: [u8; 2] }
pub enum PacketError { TooLarge, TooSmall, HeaderLengthInvalid(usize), HeaderDecryptionFailed, InvalidVersion(u16), InvalidAuthDataSize, UnknownPacket, InvalidNodeId }
#[verifier::external_body] pub struct NodeId { _p: () }
impl NodeId { #[verifier::external_body] pub fn raw(&self) -> (r: [u8; 32]) { unimplemented!() } }
pub enum PacketKind { Message, WhoAreYou, Handshake }
impl PacketKind {
    #[verifier::external_body] pub fn decode(kind: u8, auth_data: &[u8]) -> (r: Result<PacketKind, PacketError>) { unimplemented!() }
    pub fn is_whoareyou(&self) -> (r: bool) { matches!(self, PacketKind::WhoAreYou) }
}
pub struct PacketHeader { pub message_nonce: MessageNonce, pub protocol_identity: ProtocolIdentity, pub kind: PacketKind }
pub struct Packet { pub iv: u128, pub header: PacketHeader, pub message: Vec<u8> }

// abstract GenericArray and cipher (assumed stream-cipher contract)
#[verifier::external_body] pub struct GA16 { _p: () }
pub struct GenericArray;
impl GenericArray { #[verifier::external_body] pub fn clone_from_slice(s: &[u8]) -> (r: GA16) requires s@.len() == 16 { unimplemented!() } }
#[verifier::external_body] pub struct Aes128Ctr64BE { _p: () }
impl Aes128Ctr64BE {
    pub uninterp spec fn ks(&self) -> Seq<u8>;
    pub uninterp spec fn pos(&self) -> nat;
    #[verifier::external_body] pub fn new(k: &GA16, n: &GA16) -> (r: Self) ensures r.pos() == 0 { unimplemented!() }
    #[verifier::external_body] pub fn apply_keystream(&mut self, buf: &mut Vec<u8>)
        ensures final(buf)@.len() == old(buf)@.len(), final(self).pos() == old(self).pos() + old(buf)@.len(), final(self).ks() == old(self).ks(),
                forall|i: int| 0 <= i < old(buf)@.len() ==> final(buf)@[i] == old(buf)@[i] ^ old(self).ks()[old(self).pos() + i]
    { unimplemented!() }
}
pub assume_specification<T: Clone> [<[T]>::to_vec] (s: &[T]) -> (r: Vec<T>) ensures r@ == s@;
pub uninterp spec fn be16(s: Seq<u8>) -> u16;
pub uninterp spec fn be128(s: Seq<u8>) -> u128;
#[verifier::external_body] pub fn std_u16_from_be_bytes(b: [u8; 2]) -> (r: u16) ensures r == be16(b@) { std_u16_from_be_bytes(b) }
#[verifier::external_body] pub fn std_u128_from_be_bytes(b: [u8; 16]) -> (r: u128) ensures r == be128(b@) { std_u128_from_be_bytes(b) }
#[verifier::external_body] pub fn verif_try_into_array<const N: usize>(s: &[u8]) -> (r: [u8; N]) requires s@.len() == N ensures r@ == s@ { unimplemented!() }
impl Packet {
    pub fn decode(
        src_id: &NodeId,
        protocol_identity: ProtocolIdentity,
        data: &[u8],
    ) -> Result<(Self, Vec<u8>), PacketError> {
        if data.len() > MAX_PACKET_SIZE {
            return Err(PacketError::TooLarge);
        }
        if data.len() < MIN_PACKET_SIZE {
            return Err(PacketError::TooSmall);
        }

        // attempt to decrypt the static header
        let iv = data[..IV_LENGTH].to_vec();

        /* Decryption is done inline
         *
         * This was split into its own library, but brought back to allow re-use of the cipher when
         * performing the decryption
         */
        let key = GenericArray::clone_from_slice(&src_id.raw()[..16]);
        let nonce = GenericArray::clone_from_slice(&iv);
        let mut cipher = Aes128Ctr64BE::new(&key, &nonce);

        // Take the static header content
        let mut static_header = data[IV_LENGTH..IV_LENGTH + STATIC_HEADER_LENGTH].to_vec();
        cipher.apply_keystream(&mut static_header);

        // double check the size
        if static_header.len() != STATIC_HEADER_LENGTH {
            return Err(PacketError::HeaderLengthInvalid(static_header.len()));
        }

        // Check the protocol id
        if static_header[..6] != protocol_identity.protocol_id {
            return Err(PacketError::HeaderDecryptionFailed);
        }

        let version_bytes = &static_header[6..8];
        // Check the version matches
        if version_bytes != protocol_identity.protocol_version {
            let version =
                std_u16_from_be_bytes(verif_try_into_array(version_bytes));
            return Err(PacketError::InvalidVersion(version));
        }

        let flag = static_header[8];

        // Obtain the message nonce
        let message_nonce: MessageNonce = verif_try_into_array(&static_header[9..9 + MESSAGE_NONCE_LENGTH]);

        // The decryption was successful, decrypt the remaining header
        let auth_data_size = std_u16_from_be_bytes(
            verif_try_into_array(&static_header[STATIC_HEADER_LENGTH - 2..]),
        );

        let remaining_data = data[IV_LENGTH + STATIC_HEADER_LENGTH..].to_vec();
        if auth_data_size as usize > remaining_data.len() {
            return Err(PacketError::InvalidAuthDataSize);
        }

        let mut auth_data = data[IV_LENGTH + STATIC_HEADER_LENGTH
            ..IV_LENGTH + STATIC_HEADER_LENGTH + auth_data_size as usize]
            .to_vec();
        cipher.apply_keystream(&mut auth_data);

        let kind = PacketKind::decode(flag, &auth_data)?;

        let header = PacketHeader {
            message_nonce,
            protocol_identity,
            kind,
        };

        // Any remaining bytes are message data
        let message = data[IV_LENGTH + STATIC_HEADER_LENGTH + auth_data_size as usize..].to_vec();

        if !message.is_empty() && header.kind.is_whoareyou() {
            // do not allow extra bytes being sent in WHOAREYOU messages
            return Err(PacketError::UnknownPacket);
        }

        // build the authenticated data
        let mut authenticated_data = iv.to_vec();
        authenticated_data.extend_from_slice(&static_header);
        authenticated_data.extend_from_slice(&auth_data);

        let packet = Packet {
            iv: std_u128_from_be_bytes(verif_try_into_array(&iv[..])),
            header,
            message,
        };

        Ok((packet, authenticated_data))
    }
}
}
fn main(){}
