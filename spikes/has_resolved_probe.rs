use vstd::prelude::*;
verus!{
#[verifier::external_body] pub struct M { _p: () }
#[verifier::external_body] pub struct E<'a> { _p: core::marker::PhantomData<&'a mut ()> }
impl M {
    pub uninterp spec fn view(&self) -> int;
    #[verifier::external_body] pub fn entry(&mut self) -> (e: E<'_>) ensures e.before() == old(self)@, final(self)@ == e.after() { unimplemented!() }
}
impl<'a> E<'a> {
    pub uninterp spec fn before(&self) -> int;
    pub uninterp spec fn after(&self) -> int;
    #[verifier::external_body] pub fn set(self, v: u8) ensures self.after() == v as int { unimplemented!() }
}
pub broadcast axiom fn e_dropped<'a>(e: E<'a>) ensures #[trigger] has_resolved(e) ==> e.after() == e.before();
broadcast use e_dropped;
fn f(m: &mut M) ensures final(m)@ == old(m)@ {
    let e = m.entry();
}
fn g(m: &mut M) ensures final(m)@ == 7 {
    let e = m.entry();
    e.set(7);
}
fn h(m: &mut M) requires old(m)@ != 7 {
    let e = m.entry();
    e.set(7);
    assert(false);
}
fn k(m: &mut M, c: bool) ensures final(m)@ == (if c { 7 } else { old(m)@ }) {
    let e = m.entry();
    if c { e.set(7); }
}
}
fn main(){}
