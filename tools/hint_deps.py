#!/usr/bin/env python3
"""hint_deps.py [-j N] [unit ...]

For every anchored proof hint (`//@ before|after|after_arm|before_arm "<anchor>": ...`) of every Verus unit: build the
unit from /repo's current tree with that ONE hint left out (exactly what happens when a change to the code removes the
anchor text) and record which obligations then fail.  The result, /verif/hint_deps.json, is committed and read by
./check (tools/run.py, finish()):

  when a check finds a hint anchor LOST on the tree it verifies, a failing obligation of the same function is reported
  as a VIOLATION only if the table says that obligation does NOT need the lost hint on the unchanged tree; an obligation
  that needs it (or a hint the table does not know) is undecided (exit 2) — the proof script does not fit the changed
  code, which says nothing about the property.

Run it on the UNCHANGED tree after editing hints or contracts (tools/refresh.sh does).  It never runs during a check.
"""
import concurrent.futures as cf
import json
import multiprocessing
import os
import shutil
import sys
import tempfile

HERE = os.path.dirname(os.path.abspath(__file__))
sys.path.insert(0, HERE)
import run  # noqa: E402
import vx   # noqa: E402

OUT = os.path.join(run.VERIF, "hint_deps.json")
CTX_OUT = os.path.join(run.VERIF, "hint_ctx.json")
CTX = {}


def sites_of(u):
    vx.HINT_SITES.clear()
    vx.ABLATE_HINT[0] = None
    vx.build(open(u["path"]).read(), run.REPO, u["name"])
    seen = []
    for s in vx.HINT_SITES:
        if s not in seen:
            seen.append(s)
    CTX.setdefault(u["name"], {})
    for (qual, where, anchor, k), c in vx.HINT_CTX_OUT.items():
        CTX[u["name"]].setdefault(qual, {})[f"{where}|{anchor}#{k}"] = c
    return seen


def ablate(u, site):
    qual, where, anchor, k = site
    scratch = tempfile.mkdtemp(prefix="verif-hd-", dir="/var/tmp")
    try:
        vx.ABLATE_HINT[0] = (qual, anchor, k)
        res = run.run_verus_unit(u, scratch, "quick")
    finally:
        vx.ABLATE_HINT[0] = None
        shutil.rmtree(scratch, ignore_errors=True)
    if res.get("infra"):
        # without the hint the unit does not even type-check (the hint declares a ghost the rest of the script uses):
        # every obligation of the function depends on it
        return dict(unit=u["name"], fn=qual, anchor=anchor, k=k, needs="*", why=res["infra"][:200])
    return dict(unit=u["name"], fn=qual, anchor=anchor, k=k,
                needs=sorted({f["obligation"] for f in res["failures"]}))


def main():
    args = sys.argv[1:]
    jobs = 12
    if args[:1] == ["-j"]:
        jobs = int(args[1]); args = args[2:]
    units = [u for u in run.discover_units().values() if u["engine"] == "verus" and (not args or u["name"] in args)]
    work = []
    for u in sorted(units, key=lambda u: u["name"]):
        for s in sites_of(u):
            work.append((u, s))
    print(f"{len(work)} anchored hints in {len(units)} units")
    ctx_all = {}
    if args and os.path.exists(CTX_OUT):
        ctx_all = json.load(open(CTX_OUT))
    ctx_all.update(CTX)
    json.dump(ctx_all, open(CTX_OUT, "w"), indent=0, sort_keys=True)
    table = {}
    if args and os.path.exists(OUT):
        table = json.load(open(OUT))
        for u in units:
            table.pop(u["name"], None)
    with cf.ProcessPoolExecutor(max_workers=jobs, mp_context=multiprocessing.get_context("fork")) as ex:
        for r in ex.map(lambda_ablate, work):
            table.setdefault(r["unit"], {}).setdefault(r["fn"], {})[f"{r['anchor']}#{r['k']}"] = r["needs"]
            n = "*" if r["needs"] == "*" else len(r["needs"])
            print(f"  {r['unit']}::{r['fn']}  {r['anchor'][:60]!r}#{r['k']}: {n}")
    json.dump(table, open(OUT, "w"), indent=1, sort_keys=True)
    print(f"wrote {OUT}")


def lambda_ablate(w):
    return ablate(*w)


if __name__ == "__main__":
    main()
