#!/bin/sh
# usage: seedtest.sh <patch.diff> <prop> [<prop>...] : apply patch to /repo, run checks, revert
P=$(realpath "$1"); shift
cd /repo && git diff --quiet || { echo "/repo not clean"; exit 3; }
git -C /repo apply "$P" || { echo "patch does not apply"; exit 3; }
for p in "$@"; do (cd /verif && ./check $p --no-evidence | grep -v "^  " | cut -c1-400); done
git -C /repo checkout -- . 
