#!/usr/bin/env python3
"""Generates /verif/MANIFEST.json from the table in /verif/manifest_src.json (claims) and
properties.jsonl (ids).  Every property without a claim is listed under not_applicable."""
import json, os, sys
V = os.path.dirname(os.path.dirname(os.path.abspath(__file__)))
src = json.load(open(os.path.join(V, "manifest_src.json")))
props = [json.loads(l)["id"] for l in open(os.path.join(V, "properties.jsonl")) if l.strip()]
checks, na = [], []
for pid in props:
    c = src["claims"].get(pid)
    if c:
        checks.append(dict(
            property_id=pid,
            quick_cmd=f"./check {pid} --tier quick",
            thorough_cmd=f"./check {pid} --tier thorough",
            evidence_file=f"/verif/evidence/{pid}.json",
            replay_cmd_template=f"./check {pid} --replay {{path}}",
            engine=c.get("engine", "verus-extract"),
            level_claimed=dict(category=c.get("category", "proof"), text=c["text"], design_ref=c.get("design_ref", f"DESIGN.md §4 {pid}")),
            level_note=c["note"],
            technique=c.get("technique", "contract-based deductive verification (Verus on mechanically extracted real functions)"),
        ))
    else:
        na.append(dict(property_id=pid, reason=src["not_applicable"].get(pid, "check not built yet in this session (see DESIGN.md §4 for the plan)")))
m = dict(version=1, setup_cmd=src["setup_cmd"], hooks=src["hooks"], engines=src.get("engines", []),
         checks=checks, notes=src.get("notes", ""), not_applicable=na)
json.dump(m, open(os.path.join(V, "MANIFEST.json"), "w"), indent=1)
print(f"MANIFEST.json: {len(checks)} checks, {len(na)} not_applicable")
