#!/bin/bash
# usage: confirm_seed.sh <seed dir> <worktree dir> : confirm a seeded change in a scratch worktree of /repo
#   (1) demonstration only -> demo test passes   (2) demonstration + patch -> demo test fails
#   (3) patch only -> the whole suite passes.    Writes <seed dir>/confirm.json. The worktree is created if missing and reused.
S=$(realpath "$1"); W="$2"
export CARGO_NET_OFFLINE=true CARGO_TARGET_DIR="$W.target"
[ -d "$W" ] || git -C /repo worktree add --detach "$W" HEAD >/dev/null 2>&1
cd "$W" || exit 3
git checkout -q -- . && git clean -fdq
T=$(python3 -c "import json;m=json.load(open('$S/meta.json'));d=m.get('demo_test') or m.get('demonstration',{}).get('test');print(d.split('::')[-1])")
DEMO=$S/demo.diff; [ -f "$DEMO" ] || DEMO=$S/demonstration.diff
git apply "$DEMO" || { echo "demo does not apply"; exit 3; }
r1=$(unshare -n sh -c "ip link set lo up 2>/dev/null; cargo test --offline --lib $T" 2>&1 | grep "^test result" | head -1)
git apply "$S/patch.diff" || { echo "patch does not apply on top of demo"; exit 3; }
r2=$(unshare -n sh -c "ip link set lo up 2>/dev/null; cargo test --offline --lib $T" 2>&1 | grep "^test result" | head -1)
git checkout -q -- . && git clean -fdq
git apply "$S/patch.diff"
# the tests bind fixed UDP ports on localhost: run the suite in its own network namespace (other jobs run tests at the same
# time), once more if it fails
r3=$(unshare -n sh -c 'ip link set lo up 2>/dev/null; cargo test --workspace --no-fail-fast --offline' 2>&1 | grep "^test result" | tr '\n' '|')
case "$r3" in *FAILED*) r3=$(unshare -n sh -c 'ip link set lo up 2>/dev/null; cargo test --workspace --no-fail-fast --offline' 2>&1 | grep "^test result" | tr '\n' '|');; esac
git checkout -q -- . && git clean -fdq
python3 - "$S" "$T" "$r1" "$r2" "$r3" <<'PY'
import json,sys
s,t,r1,r2,r3=sys.argv[1:6]
json.dump(dict(test=t,clean_tree=r1,with_patch=r2,suite_with_patch_only=r3,
  ok=(' 1 passed' in r1 and 'FAILED' in r2 and 'FAILED' not in r3 and '121 passed' in r3)),open(s+'/confirm.json','w'),indent=1)
print(s.split('/')[-1], 'clean:',r1[:40],'| patched:',r2[:45],'| suite:',r3[:60])
PY
