#!/bin/bash
# usage: seed_intake.sh <ID> <suffix> <srcdir> : take a sub-agent's deliverables (patch.diff demo.diff meta.json) into
# seeded/pending/<ID><suffix>/ and run the property's check against a scratch copy of /repo with the patch applied.
ID=$1; SUF=$2; SRC=$3
D=/verif/seeded/pending/$ID$SUF
mkdir -p $D && cp $SRC/patch.diff $SRC/demo.diff $SRC/meta.json $D/
/verif/tools/seedpar.sh $D/patch.diff $ID 2>&1 | grep -E "VIOLATION|INFRA|NOTE|failed obligation|exit=" | cut -c1-400
