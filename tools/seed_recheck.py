#!/usr/bin/env python3
"""seed_recheck.py <suffix> : re-run the check of every seeded/C??<suffix> against a patched scratch copy and refresh
meta.json's check_result (exit, outcome, failing_obligations, infra). Prints a table."""
import json, os, re, subprocess, sys, glob
from concurrent.futures import ThreadPoolExecutor
V = os.path.dirname(os.path.dirname(os.path.abspath(__file__)))
suf = sys.argv[1]
def one(d):
    name = os.path.basename(d); pid = name[:3]
    r = subprocess.run([V + "/tools/seedpar.sh", os.path.join(d, "patch.diff"), pid], capture_output=True, text=True)
    out = r.stdout
    m = re.search(r"exit=(\d)", out); ex = int(m.group(1)) if m else -1
    fails = [re.sub(r"\s+\(.*$", "", l.split("failed obligation:")[1].strip()) for l in out.split("\n") if "failed obligation:" in l]
    infra = [l[:400] for l in out.split("\n") if l.startswith("INFRA")]
    mp = os.path.join(d, "meta.json"); meta = json.load(open(mp))
    cr = meta.get("check_result") if isinstance(meta.get("check_result"), dict) else {}
    cr.update({"command": f"VERIF_REPO=<scratch copy of /repo with the patch> ./check {pid}", "exit": ex,
               "outcome": {0: "NOT DETECTED", 1: "VIOLATION", 2: "UNDECIDED (exit 2)"}.get(ex, "?"), "failing_obligations": fails, "infra": infra})
    meta["check_result"] = cr
    json.dump(meta, open(mp, "w"), indent=1)
    return name, ex, "; ".join(fails)[:220] + " ".join(infra)[:200]
ds = sorted(glob.glob(os.path.join(V, "seeded", "C??" + suf)))
with ThreadPoolExecutor(5) as ex:
    for name, e, res in ex.map(one, ds): print(name, f"exit={e}", res, flush=True)
