#!/usr/bin/env python3
"""vx.py — mechanical extractor / contract splicer (engine V and X of DESIGN.md).

A *unit template* (`/verif/units/<unit>.vu`) is a Verus source file in which the real
functions of /repo are not written out but *referred to*:

    //@extract file=src/handler/session.rs impl="impl Session" fn=establish_from_challenge props=C01,C03
    //@ rules: R1
    //@ ret: res
    //@ requires: <expr>
    //@ ensures C01.bind: <expr>
    //@+   continuation of the previous clause
    //@ loop 0 invariant C07.order: <expr>
    //@ loop 0 decreases: <expr>
    //@ after "anchor text" [#k]: <proof text inserted after the statement ending at that anchor>
    //@ before "anchor text" [#k]: <proof text>
    //@ replace "old" => "new"          (token-exact, whitespace-insensitive; reported)
    //@ sigreplace "old" => "new"       (same, but only in the signature)
    //@end

Every other line of the template (trusted preamble, proved lemmas) is copied verbatim.
`build()` returns the generated Verus text, a line map (generated line -> label /
function / source span) and the extraction report that goes into the evidence.

Rewrites applied (complete list, see DESIGN.md §2.2): R1 R1b R1c R2 R3 R8 R10 R12 R13 and
explicit `replace` directives (each reported).  Anything else is byte-for-byte.
"""
from __future__ import annotations
import hashlib
import json
import os
import re
import sys
from dataclasses import dataclass, field

sys.path.insert(0, os.path.dirname(os.path.abspath(__file__)))
from rustlex import (lex, Tok, WS, COMMENT, IDENT, PUNCT, STRING, NUM, LIFETIME, CHAR,
                     OPEN, CLOSE, match_close, text_of, norm, LexError)

LOG_MACROS = {"trace", "debug", "info", "warn", "error"}


class AnchorLost(Exception):
    """an item / anchor named by a template cannot be found in /repo's current text"""


class TemplateError(Exception):
    pass


# --------------------------------------------------------------------------------------
# locating items
# --------------------------------------------------------------------------------------

def _sigs(toks, lo=0, hi=None):
    hi = len(toks) if hi is None else hi
    return [i for i in range(lo, hi) if toks[i].kind not in (WS, COMMENT)]


ITEM_KW = {"fn", "struct", "enum", "impl", "trait", "mod", "const", "static", "type",
           "use", "macro_rules", "union", "extern"}


def _skip_attr(toks, i):
    """toks[i] is '#'; return index after the attribute's closing ']'."""
    j = i + 1
    while toks[j].kind in (WS, COMMENT):
        j += 1
    if toks[j].text == "!":
        j += 1
        while toks[j].kind in (WS, COMMENT):
            j += 1
    if toks[j].text != "[":
        return i + 1
    return match_close(toks, j) + 1


@dataclass
class Item:
    kind: str          # fn / struct / enum / impl / const / ...
    name: str          # identifier (for impl: normalised header)
    attr_start: int    # token index where attributes/doc comments start
    start: int         # token index of first token of the item proper (vis / kw)
    hdr_end: int       # token index of the '{' (or ';' / '=' for bodiless items)
    end: int           # token index one past the last token of the item
    header: str = ""


def scan_items(toks, lo, hi):
    """Items directly inside toks[lo:hi] (a file, a mod body or an impl body)."""
    items = []
    i = lo
    while i < hi:
        t = toks[i]
        if t.kind in (WS, COMMENT):
            i += 1; continue
        attr_start = i
        # attributes
        while i < hi and (toks[i].text == "#" or toks[i].kind in (WS, COMMENT)):
            if toks[i].text == "#":
                i = _skip_attr(toks, i)
            else:
                i += 1
        if i >= hi:
            break
        start = i
        # find the item keyword: skip visibility / qualifiers
        j = i
        kind = None
        while j < hi:
            tj = toks[j]
            if tj.kind in (WS, COMMENT):
                j += 1; continue
            if tj.kind == IDENT and tj.text in ITEM_KW:
                kind = tj.text; break
            if tj.kind == IDENT and tj.text in ("pub", "async", "unsafe", "default", "crate"):
                j += 1; continue
            if tj.text == "(":      # pub(crate)
                j = match_close(toks, j) + 1; continue
            if tj.kind == STRING:   # extern "C"
                j += 1; continue
            break
        if kind is None:
            # macro invocation or something we do not model: skip to ';' or balanced group
            k = i
            while k < hi and toks[k].text not in (";", "{", "(", "["):
                k += 1
            if k < hi and toks[k].text in OPEN:
                k = match_close(toks, k)
                # trailing ';'
                k2 = k + 1
                while k2 < hi and toks[k2].kind in (WS, COMMENT):
                    k2 += 1
                if k2 < hi and toks[k2].text == ";":
                    k = k2
            i = k + 1
            continue
        kw = j
        # name
        k = kw + 1
        while toks[k].kind in (WS, COMMENT):
            k += 1
        name = toks[k].text if toks[k].kind == IDENT else ""
        # header end: first '{' or ';' at bracket depth 0 (parens/brackets/angle ignored
        # except (...) and [...] groups which are skipped)
        k = kw + 1
        hdr_end = None
        while k < hi:
            tk = toks[k]
            if tk.kind == PUNCT and tk.text in ("(", "["):
                k = match_close(toks, k) + 1; continue
            if tk.kind == PUNCT and tk.text == "{":
                hdr_end = k; break
            if tk.kind == PUNCT and tk.text == ";":
                hdr_end = k; break
            if kind in ("const", "static", "type") and tk.kind == PUNCT and tk.text == "=" \
                    and toks[k + 1].text != "=":
                # value expression: scan to ';' at depth 0
                m = k
                while m < hi and toks[m].text != ";":
                    if toks[m].kind == PUNCT and toks[m].text in OPEN:
                        m = match_close(toks, m)
                    m += 1
                hdr_end = m; break
            k += 1
        if hdr_end is None:
            raise LexError(f"cannot find end of item header at {toks[kw].start}")
        if toks[hdr_end].text == "{":
            end = match_close(toks, hdr_end) + 1
            # tuple/unit structs: `struct X(..);`
        else:
            end = hdr_end + 1
        header = norm(text_of(toks[kw:hdr_end]))
        if kind == "impl":
            name = header
        items.append(Item(kind, name, attr_start, start, hdr_end, end, header))
        i = end
    return items


def _impl_type_name(header_norm: str):
    """'impl<T>Foo<T>' -> ('', 'Foo'); 'impl<T>Trait for Foo<T>' -> ('Trait','Foo')."""
    toks = [t for t in lex(header_norm)]
    # strip leading 'impl' and generics
    i = 1
    if i < len(toks) and toks[i].text == "<":
        depth = 0
        while i < len(toks):
            if toks[i].text == "<":
                depth += 1
            elif toks[i].text == ">":
                depth -= 1
                if depth == 0:
                    i += 1; break
            i += 1
    rest = toks[i:]

    def first_path_name(ts):
        # last ident of the leading path before '<' / 'where' / 'for'
        nm = ""
        depth = 0
        for t in ts:
            if t.text == "<":
                depth += 1
            elif t.text == ">":
                depth -= 1
            elif depth == 0 and t.kind == IDENT:
                if t.text in ("where", "for"):
                    break
                nm = t.text
        return nm
    # split on top-level 'for'
    depth = 0
    for idx, t in enumerate(rest):
        if t.text == "<":
            depth += 1
        elif t.text == ">":
            depth -= 1
        elif depth == 0 and t.kind == IDENT and t.text == "for":
            return first_path_name(rest[:idx]), first_path_name(rest[idx + 1:])
        elif depth == 0 and t.kind == IDENT and t.text == "where":
            break
    return "", first_path_name(rest)


def impl_matches(header_norm: str, spec: str) -> bool:
    s = norm(spec)
    if header_norm == s:
        return True
    tr, ty = _impl_type_name(header_norm)
    str_, sty = _impl_type_name(s)
    # spec without generics: match on (trait, type) names
    return ("<" not in s) and (tr, ty) == (str_, sty)


class SourceFile:
    def __init__(self, repo, rel):
        self.rel = rel
        self.path = os.path.join(repo, rel)
        try:
            self.text = open(self.path, encoding="utf-8").read()
        except OSError as e:
            raise AnchorLost(f"{rel}: {e}")
        self.toks = lex(self.text)
        self.items = scan_items(self.toks, 0, len(self.toks))
        # descend into `mod` bodies that are not test modules (one level)
        extra = []
        for it in self.items:
            if it.kind == "mod" and self.toks[it.hdr_end].text == "{" and it.name not in ("tests", "test"):
                extra += scan_items(self.toks, it.hdr_end + 1, it.end - 1)
        self.items += extra

    def line_of(self, tokidx):
        return self.text.count("\n", 0, self.toks[tokidx].start) + 1

    def find(self, impl=None, kind=None, name=None):
        """Return (Item, enclosing impl Item or None)."""
        cands = []
        if impl:
            for it in self.items:
                if it.kind == "impl" and impl_matches(it.header, impl):
                    for sub in scan_items(self.toks, it.hdr_end + 1, it.end - 1):
                        if sub.kind == kind and sub.name == name:
                            cands.append((sub, it))
        else:
            for it in self.items:
                if it.kind == kind and it.name == name:
                    cands.append((it, None))
        if not cands:
            raise AnchorLost(f"{self.rel}: {impl or ''} {kind} {name} not found")
        if len(cands) > 1:
            raise AnchorLost(f"{self.rel}: {impl or ''} {kind} {name} is ambiguous ({len(cands)} matches)")
        return cands[0]


# --------------------------------------------------------------------------------------
# token-level rewrites
# --------------------------------------------------------------------------------------

def _prev_sig(toks, i):
    j = i - 1
    while j >= 0 and toks[j].kind in (WS, COMMENT):
        j -= 1
    return j


def _next_sig(toks, i):
    j = i + 1
    while j < len(toks) and toks[j].kind in (WS, COMMENT):
        j += 1
    return j


def T(kind, text):
    return Tok(kind, text, -1, -1)


def rw_strip_comments(toks, report):
    """comments inside extracted items are dropped (they may contain text that confuses
    anchors; they carry no semantics)"""
    return [t if t.kind != COMMENT else T(WS, " ") for t in toks]


def rw_vis(toks, report):
    """R13: `pub(crate)` / `pub(super)` / `pub(in path)` -> `pub` (the generated file is a single
    crate; visibility only)."""
    out = []
    i, n = 0, len(toks)
    while i < n:
        t = toks[i]
        if t.kind == IDENT and t.text == "pub":
            j = _next_sig(toks, i)
            if j < n and toks[j].text == "(":
                k = _next_sig(toks, j)
                if k < n and toks[k].kind == IDENT and toks[k].text in ("crate", "super", "in", "self"):
                    e = match_close(toks, j)
                    out.append(t)
                    report.append(("R13", "restricted visibility widened to pub"))
                    i = e + 1
                    continue
        out.append(t)
        i += 1
    return out


def rw_R1_logs(toks, report):
    """R1: tracing macro calls deleted (statement position) or replaced by `()` (value
    position)."""
    out = []
    i = 0
    n = len(toks)
    while i < n:
        t = toks[i]
        if t.kind == IDENT and (t.text in LOG_MACROS):
            j = _next_sig(toks, i)
            # optional path prefix tracing::warn! is handled by caller seeing `tracing` `::` first
            if j < n and toks[j].text == "!":
                k = _next_sig(toks, j)
                if k < n and toks[k].text in OPEN:
                    e = match_close(toks, k)
                    p = _prev_sig(toks, i)
                    # strip `tracing::` prefix if present
                    cut_from = len(out)
                    if p >= 1 and toks[p].text == ":" and toks[_prev_sig(toks, p)].text == ":":
                        pp = _prev_sig(toks, _prev_sig(toks, p))
                        if toks[pp].kind == IDENT and toks[pp].text in ("tracing", "log"):
                            # remove already emitted tokens back to pp
                            while out and out[-1] is not toks[pp]:
                                out.pop()
                            out.pop()
                            p = _prev_sig(toks, pp)
                    nx = _next_sig(toks, e)
                    prev_txt = toks[p].text if p >= 0 else "{"
                    stmt_pos = prev_txt in ("{", ";", "}") and not _is_struct_or_match_ctx(toks, p)
                    if stmt_pos and nx < n and toks[nx].text == ";":
                        report.append(("R1", f"deleted {t.text}!(..);"))
                        i = nx + 1
                        continue
                    if stmt_pos and nx < n and toks[nx].text == "}":
                        # trailing expression of a block whose value is () : delete
                        report.append(("R1", f"deleted trailing {t.text}!(..)"))
                        i = e + 1
                        continue
                    report.append(("R1", f"{t.text}!(..) in value position -> ()"))
                    out.append(T(PUNCT, "(")); out.append(T(PUNCT, ")"))
                    i = e + 1
                    continue
        out.append(t)
        i += 1
    return out


def _is_struct_or_match_ctx(toks, p):
    return False


def rw_R2_async(toks, report):
    """R2: `async fn` -> `fn`; `.await` removed."""
    out = []
    i, n = 0, len(toks)
    while i < n:
        t = toks[i]
        if t.kind == IDENT and t.text == "async":
            j = _next_sig(toks, i)
            if j < n and toks[j].kind == IDENT and toks[j].text == "fn":
                report.append(("R2", "async fn -> fn"))
                i = j
                continue
        if t.kind == PUNCT and t.text == ".":
            j = _next_sig(toks, i)
            if j < n and toks[j].kind == IDENT and toks[j].text == "await":
                report.append(("R2", ".await removed"))
                i = j + 1
                continue
        out.append(t)
        i += 1
    return out


CLOSURE_PREV = {"(", ",", "=", "{", ";", "move", "return", ">", "|", "&", "}"}


def rw_R8_closure_underscore(toks, report):
    """R8: `_` in closure parameter position becomes `_u<n>`."""
    out = list(toks)
    cnt = 0
    i, n = 0, len(out)
    while i < n:
        t = out[i]
        if t.kind == PUNCT and t.text == "|":
            p = _prev_sig(out, i)
            prev = out[p].text if p >= 0 else "{"
            is_start = prev in ("(", ",", "=", "{", ";", "move", "return") or \
                (prev == ">" and p >= 1 and out[p - 1].text == "=")
            nx = _next_sig(out, i)
            if is_start and nx < n and out[nx].text != "|":
                # find closing '|' at depth 0
                j = i + 1
                depth = 0
                while j < n:
                    tj = out[j]
                    if tj.kind == PUNCT and tj.text in OPEN:
                        j = match_close(out, j) + 1; continue
                    if tj.kind == PUNCT and tj.text == "|":
                        break
                    j += 1
                if j < n:
                    for k in range(i + 1, j):
                        if out[k].kind == IDENT and out[k].text == "_":
                            out[k] = T(IDENT, f"_u{cnt}")
                            cnt += 1
                            report.append(("R8", "closure parameter `_` renamed"))
                    # R8c: a single reference-pattern parameter `|&d| E` becomes `|verif_ref_d| { let d = *verif_ref_d; E }`
                    fs0 = _next_sig(out, i)
                    if fs0 < j and out[fs0].kind == PUNCT and out[fs0].text == "&":
                        idt = _next_sig(out, fs0)
                        if idt < j and out[idt].kind == IDENT and _next_sig(out, idt) == j:
                            dname = out[idt].text
                            pname = f"verif_ref_{dname}"
                            bs = _next_sig(out, j)
                            if bs < n and out[bs].text == "{":
                                out[bs + 1:bs + 1] = [T("raw", f" let {dname} = *{pname}; ")]
                                out[fs0:j] = [T(IDENT, pname)]
                                report.append(("R8c", f"closure reference-pattern parameter &{dname} bound by `let` inside the body"))
                                n = len(out)
                                i = fs0 + 1
                                continue
                    # R8b: a single tuple-pattern parameter `|(a, b)| E` becomes `|verif_p| { let (a, b) = verif_p; E }`
                    fs = _next_sig(out, i)
                    if fs < j and out[fs].kind == PUNCT and out[fs].text == "(" and match_close(out, fs) == _prev_sig(out, j):
                        pat = text_of(out[fs:j]).strip()
                        bs = _next_sig(out, j)
                        pname = f"verif_p{cnt}"
                        cnt += 1
                        if bs < n and out[bs].text == "{":
                            out[bs + 1:bs + 1] = [T("raw", f" let {pat} = {pname}; ")]
                        else:
                            # expression body: find its end
                            e = bs
                            while e < n:
                                te = out[e]
                                if te.kind == PUNCT and te.text in OPEN:
                                    e = match_close(out, e) + 1; continue
                                if te.kind == PUNCT and (te.text in CLOSE or te.text in (",", ";")):
                                    break
                                e += 1
                            out[e:e] = [T("raw", " }")]
                            out[bs:bs] = [T("raw", f"{{ let {pat} = {pname}; ")]
                        out[fs:j] = [T(IDENT, pname)]
                        n = len(out)
                        report.append(("R8b", f"closure tuple-pattern parameter {pat} bound by `let` inside the body"))
                        i = fs + 1
                        continue
                    i = j + 1
                    continue
        i += 1
    return out


def rw_R7_try_into_expect(toks, report):
    """R7a: `RECV.try_into().expect("..")` (slice -> array conversion that cannot fail when the length is
    right) becomes `verif_try_into_array(&RECV)`, a preamble wrapper whose PRECONDITION is the length match —
    so the absence of the panic is proved, not assumed."""
    out = list(toks)
    i = 0
    while i < len(out):
        t = out[i]
        if t.kind == PUNCT and t.text == ".":
            j = _next_sig(out, i)
            if j < len(out) and out[j].kind == IDENT and out[j].text == "try_into":
                k = _next_sig(out, j)
                if k < len(out) and out[k].text == "(":
                    ke = match_close(out, k)
                    d = _next_sig(out, ke)
                    e = _next_sig(out, d) if d < len(out) else d
                    if d < len(out) and out[d].text == "." and e < len(out) and out[e].kind == IDENT and out[e].text == "expect":
                        g = _next_sig(out, e)
                        if g < len(out) and out[g].text == "(":
                            ge = match_close(out, g)
                            # receiver: postfix chain backwards from i
                            r = _prev_sig(out, i)
                            start = None
                            while r >= 0:
                                tr = out[r]
                                if tr.kind == PUNCT and tr.text in ("]", ")"):
                                    depth = 0
                                    q = r
                                    while q >= 0:
                                        if out[q].kind == PUNCT and out[q].text in CLOSE:
                                            depth += 1
                                        elif out[q].kind == PUNCT and out[q].text in OPEN:
                                            depth -= 1
                                            if depth == 0:
                                                break
                                        q -= 1
                                    start = q
                                    r = _prev_sig(out, q)
                                    continue
                                if tr.kind in (IDENT, NUM):
                                    start = r
                                    r2 = _prev_sig(out, r)
                                    if r2 >= 0 and out[r2].kind == PUNCT and out[r2].text == ".":
                                        r = _prev_sig(out, r2)
                                        continue
                                    if r2 >= 1 and out[r2].text == ":" and out[_prev_sig(out, r2)].text == ":":
                                        r = _prev_sig(out, _prev_sig(out, r2))
                                        continue
                                    break
                                break
                            if start is not None:
                                recv = text_of(out[start:i]).strip()
                                out[start:ge + 1] = [T("raw", f"verif_try_into_array(&{recv})")]
                                report.append(("R7a", f"`{recv}.try_into().expect(..)` -> verif_try_into_array(&{recv})"))
                                i = start + 1
                                continue
        i += 1
    return out


def rw_R1c_format(toks, report):
    """R1c: `format!(..)` -> `verif_fmt()`."""
    out = []
    i, n = 0, len(toks)
    while i < n:
        t = toks[i]
        if t.kind == IDENT and t.text == "format":
            j = _next_sig(toks, i)
            if j < n and toks[j].text == "!":
                k = _next_sig(toks, j)
                if k < n and toks[k].text in OPEN:
                    e = match_close(toks, k)
                    report.append(("R1c", "format!(..) -> verif_fmt()"))
                    out += [T(IDENT, "verif_fmt"), T(PUNCT, "("), T(PUNCT, ")")]
                    i = e + 1
                    continue
        out.append(t)
        i += 1
    return out


ASSERT_KW = ["assert"]   # Verus units: `assert(c)`; Kani (engine X) units: `assert!(c)` (set per build)


def rw_debug_assert(toks, report):
    """R1: `debug_assert!(c)` / `debug_unreachable!(..)` -> proof obligations."""
    out = []
    i, n = 0, len(toks)
    while i < n:
        t = toks[i]
        if t.kind == IDENT and t.text in ("debug_assert", "debug_unreachable", "debug_assert_eq"):
            j = _next_sig(toks, i)
            if j < n and toks[j].text == "!":
                k = _next_sig(toks, j)
                if k < n and toks[k].text in OPEN:
                    e = match_close(toks, k)
                    inner = toks[k + 1:e]
                    if t.text == "debug_assert":
                        # first macro argument only (message dropped)
                        arg = _first_arg(inner)
                        out += [T(IDENT, ASSERT_KW[0]), T(PUNCT, "(")] + arg + [T(PUNCT, ")")]
                        report.append(("R1", "debug_assert!(c) -> assert(c)"))
                    elif t.text == "debug_assert_eq":
                        a, b = _two_args(inner)
                        out += [T(IDENT, ASSERT_KW[0]), T(PUNCT, "(")] + a + [T(PUNCT, "="), T(PUNCT, "=")] + b + [T(PUNCT, ")")]
                        report.append(("R1", "debug_assert_eq!(a,b) -> assert(a == b)"))
                    else:
                        out += [T(IDENT, ASSERT_KW[0]), T(PUNCT, "("), T(IDENT, "false"), T(PUNCT, ")")]
                        report.append(("R1", "debug_unreachable!(..) -> assert(false)"))
                    i = e + 1
                    continue
        out.append(t)
        i += 1
    return out


def _split_args(inner):
    args, cur = [], []
    i = 0
    while i < len(inner):
        t = inner[i]
        if t.kind == PUNCT and t.text in OPEN:
            e = match_close(inner, i)
            cur += inner[i:e + 1]; i = e + 1; continue
        if t.kind == PUNCT and t.text == ",":
            args.append(cur); cur = []; i += 1; continue
        cur.append(t); i += 1
    if any(x.kind not in (WS, COMMENT) for x in cur):
        args.append(cur)
    return args


def _first_arg(inner):
    return _split_args(inner)[0]


def _two_args(inner):
    a = _split_args(inner)
    return a[0], a[1]


def find_seq(toks, pat_norm_toks, lo=0, hi=None):
    """all start/end token index pairs where the significant tokens match pat (list of
    token texts)."""
    hi = len(toks) if hi is None else hi
    sigs = [i for i in range(lo, hi) if toks[i].kind not in (WS, COMMENT)]
    m = len(pat_norm_toks)
    res = []
    for a in range(0, len(sigs) - m + 1):
        ok = True
        for b in range(m):
            if toks[sigs[a + b]].text != pat_norm_toks[b]:
                ok = False; break
        if ok:
            res.append((sigs[a], sigs[a + m - 1]))
    return res


def pat_tokens(s):
    return [t.text for t in lex(s) if t.kind not in (WS, COMMENT)]


def rw_replace(toks, old, new, report, what="replace", expect=None, lo=0, hi=None):
    pat = pat_tokens(old)
    hits = find_seq(toks, pat, lo, hi)
    if not hits:
        raise AnchorLost(f"{what}: text not found: {old!r}")
    if expect is not None and len(hits) != expect:
        raise AnchorLost(f"{what}: expected {expect} occurrence(s) of {old!r}, found {len(hits)}")
    # non-overlapping, apply right-to-left
    out = list(toks)
    last_start = None
    for (a, b) in reversed(hits):
        if last_start is not None and b >= last_start:
            continue
        out[a:b + 1] = [T("raw", new)]
        last_start = a
    report.append((what, f"{old!r} => {new!r} x{len(hits)}"))
    return out


# --- closures ----------------------------------------------------------------------------

def find_closures(toks):
    """closures in source order: (first_bar, last_bar, body_start, body_end_excl, is_block)"""
    res = []
    i, n = 0, len(toks)
    while i < n:
        t = toks[i]
        if t.kind == PUNCT and t.text == "|":
            p = _prev_sig(toks, i)
            prev = toks[p].text if p >= 0 else "{"
            is_start = prev in ("(", ",", "=", "{", ";", "move", "return") or \
                (prev == ">" and p >= 1 and toks[p - 1].text == "=")
            if prev == "=" and p >= 1 and toks[p - 1].text in ("|", "=", "!", "<", ">"):
                is_start = False
            if is_start:
                if i + 1 < n and toks[i + 1].kind == PUNCT and toks[i + 1].text == "|":
                    close = i + 1
                else:
                    j = i + 1
                    close = None
                    while j < n:
                        tj = toks[j]
                        if tj.kind == PUNCT and tj.text in OPEN:
                            j = match_close(toks, j) + 1; continue
                        if tj.kind == PUNCT and tj.text == "|":
                            close = j; break
                        if tj.kind == PUNCT and tj.text in CLOSE or tj.text == ";":
                            break
                        j += 1
                    if close is None:
                        i += 1; continue
                bs = _next_sig(toks, close)
                if bs < n and toks[bs].text == "{":
                    be = match_close(toks, bs) + 1
                    block = True
                else:
                    j = bs
                    while j < n:
                        tj = toks[j]
                        if tj.kind == PUNCT and tj.text in OPEN:
                            j = match_close(toks, j) + 1; continue
                        if tj.kind == PUNCT and (tj.text in CLOSE or tj.text in (",", ";")):
                            break
                        j += 1
                    be = j
                    block = False
                res.append((i, close, bs, be, block))
                i = close + 1
                continue
        i += 1
    return res


def rw_closure_specs(toks, specs, rep, qual):
    """R14: closure number k gets an explicit, hand-written contract that Verus checks
    against the closure's real body: `|p| E` -> `|p| -> (b: T) ensures Q { E }`."""
    cl = find_closures(toks)
    out = list(toks)
    resolved = []
    lost_specs = []
    for (k, retdecl, ens) in specs:
        if isinstance(k, tuple):
            _, text, nth = k
            pat = pat_tokens(text)
            hits = []
            for idx, (a, close, bs, be, block) in enumerate(cl):
                sg = [("_" if re.fullmatch(r"_u\d+", t.text) else t.text) for t in toks[a:] if t.kind not in (WS, COMMENT, "raw")][:len(pat)]
                if sg == pat:
                    hits.append(idx)
            if len(hits) < nth:
                if k[0] != "anchor?":
                    lost_specs.append((text, nth, retdecl, ens))
                continue
            resolved.append((hits[nth - 1], retdecl, ens))
        else:
            if k >= len(cl):
                rep.append(("LOST", f"closure ordinal {k} not found ({len(cl)} closures): contract not attached"))
                continue
            resolved.append((k, retdecl, ens))
    if lost_specs:
        # positional fallback: the anchor text is gone (the closure was rewritten) — if exactly as many closures are left
        # without a contract as contracts lost their anchor, attach them in source order.  Attaching a contract only adds
        # the obligation that the closure satisfies it, so a wrong guess can fail but never hides anything.
        taken = {k for (k, _, _) in resolved}
        free = [i for i in range(len(cl)) if i not in taken]

        def params_of_closure(i):
            (a, close, bs, be, block) = cl[i]
            return [("_" if re.fullmatch(r"_u\d+", t.text) else t.text) for t in toks[a:close + 1] if t.kind not in (WS, COMMENT, "raw")]

        def params_of_anchor(text):
            pt = pat_tokens(text)
            if not pt or pt[0] not in ("|", "||"):
                return None
            if pt[0] == "||":
                return ["||"]
            out_p = ["|"]
            for tt in pt[1:]:
                out_p.append(tt)
                if tt == "|":
                    return out_p
            return None
        # a lost contract is re-attached only to an uncontracted closure with the SAME parameter list: per parameter
        # list, if as many free closures remain as contracts were lost, pair them in source order; contracts of closures
        # that no longer exist (no candidate) are dropped
        groups = {}
        for spec in lost_specs:
            groups.setdefault(tuple(params_of_anchor(spec[0]) or ["?"]), []).append(spec)
        for want, specs_g in groups.items():
            cands = [i for i in free if list(want) == params_of_closure(i)]
            if CLOSURE_FALLBACK[0] and want != ("?",) and len(cands) == len(specs_g):
                for i, (text, nth, retdecl, ens) in zip(cands, specs_g):
                    resolved.append((i, retdecl, ens)); free.remove(i)
                    rep.append(("hint", f"closure {text!r} #{nth}: anchor text gone, contract attached to the uncontracted closure with the same parameters (closure {i})"))
            else:
                # second chance: the parameters were only renamed — same number of plain-identifier parameters; the
                # contract follows the renaming
                def plain(pl):
                    names = [x for x in pl if x not in ("|", ",")]
                    return names if pl and pl[0] == "|" and all(re.fullmatch(r"[A-Za-z_]\w*", x) for x in names) else None
                wn = plain(list(want))
                cands2 = [i for i in free if wn is not None and plain(params_of_closure(i)) is not None and len(plain(params_of_closure(i))) == len(wn)]
                if CLOSURE_FALLBACK[0] and wn and len(cands2) == len(specs_g):
                    for i, (text, nth, retdecl, ens) in zip(cands2, specs_g):
                        ren = dict(zip(wn, plain(params_of_closure(i))))
                        def rn(sx):
                            return re.sub(r"\b(" + "|".join(map(re.escape, ren)) + r")\b", lambda m: ren[m.group(1)], sx)
                        resolved.append((i, rn(retdecl), rn(ens))); free.remove(i)
                        rep.append(("hint", f"closure {text!r} #{nth}: parameters renamed {ren}; contract attached with the same renaming (closure {i})"))
                else:
                    for (text, nth, retdecl, ens) in specs_g:
                        rep.append(("LOST?", (text, nth)))
    # a contract whose closure is gone: say how many closures of the function are left WITHOUT a contract — if none, the
    # closure was removed (nothing is missing from the proof script); otherwise the contract may belong to a rewritten one
    bare_ = len(cl) - len({k for (k, _, _) in resolved})
    for q_ in range(len(rep)):
        if rep[q_][0] == "LOST?":
            text, nth = rep[q_][1]
            rep[q_] = ("LOST", f"closure {text!r} #{nth} not found: contract not attached (closures left without a contract in the function: {bare_})")
    # all insertions are computed on the original token positions and applied from the back, so that a closure nested
    # in the expression body of another one does not shift the outer closure's end
    ins = []
    for (k, retdecl, ens) in resolved:
        (a, close, bs, be, block) = cl[k]
        hdr = f" -> {retdecl} ensures {ens} "
        if block:
            ins.append((bs, k, hdr))
        else:
            ins.append((be, k, " }"))
            ins.append((bs, k, hdr + "{ "))
        rep.append(("R14", f"closure {k}: contract `{retdecl} ensures {ens}` attached (body unchanged)"))
    for (pos, k, text) in sorted(ins, key=lambda x: (-x[0], x[1])):
        out[pos:pos] = [T("raw", text)]
    return out


# --- loops -------------------------------------------------------------------------------

def find_loops(toks, lo, hi):
    """token indices of `while` / `loop` / `for` keywords (in source order) inside
    toks[lo:hi] that start a loop statement, with the index of the body's '{'."""
    res = []
    i = lo
    while i < hi:
        t = toks[i]
        if t.kind == IDENT and t.text in ("while", "loop", "for"):
            if t.text == "for":
                # `for<'a>` HRTB or `impl X for Y` cannot occur inside fn bodies we extract,
                # but guard against `for` followed by '<'
                nx = _next_sig(toks, i)
                if toks[nx].text == "<":
                    i += 1; continue
            # body '{' : first '{' at depth 0 after the header, skipping (..) [..] groups,
            # and struct-literal braces cannot appear in loop headers without parens
            k = i + 1
            seen_in = t.text != "for"   # in a `for` header braces before `in` belong to the (struct) pattern
            while k < hi:
                tk = toks[k]
                if tk.kind == PUNCT and tk.text in ("(", "["):
                    k = match_close(toks, k) + 1; continue
                if tk.kind == IDENT and tk.text == "in":
                    seen_in = True
                if tk.kind == PUNCT and tk.text == "{":
                    if seen_in:
                        break
                    k = match_close(toks, k) + 1; continue
                k += 1
            res.append((i, k))
        i += 1
    return res


def rw_R10_for(toks, ordinals, report, body_lo, body_hi):
    """R10: desugar the given `for` loops (by loop ordinal) into
    `let mut verif_it<n> = IntoIterator::into_iter(expr); loop { let pat = match
    verif_it<n>.next() { Some(verif_x) => verif_x, None => break }; body }`."""
    loops = find_loops(toks, body_lo, body_hi)
    out = list(toks)
    for ordn in sorted(ordinals, reverse=True):
        if ordn >= len(loops):
            raise AnchorLost(f"R10: loop ordinal {ordn} not found")
        kw, br = loops[ordn]
        if out[kw].text != "for":
            raise AnchorLost(f"R10: loop {ordn} is not a `for`")
        # pattern: tokens between `for` and top-level `in`
        k = kw + 1
        depth = 0
        in_idx = None
        while k < br:
            tk = out[k]
            if tk.kind == PUNCT and tk.text in OPEN:
                k = match_close(out, k) + 1; continue
            if tk.kind == IDENT and tk.text == "in":
                in_idx = k; break
            k += 1
        if in_idx is None:
            raise AnchorLost("R10: cannot parse for header")
        pat = text_of(out[kw + 1:in_idx]).strip()
        expr = text_of(out[in_idx + 1:br]).strip()
        it = f"verif_it{ordn}"
        hdr = (f"let mut {it} = IntoIterator::into_iter({expr}); loop ")
        first = (f" let {pat} = match {it}.next() {{ Some(verif_x) => verif_x, None => break }}; ")
        out[br + 1:br + 1] = [T("raw", first)]
        out[kw:br] = [T("raw", hdr)]
        report.append(("R10", f"for {pat} in {expr} desugared (loop {ordn})"))
    return out


# --------------------------------------------------------------------------------------
# template processing
# --------------------------------------------------------------------------------------

@dataclass
class Clause:
    kind: str      # requires / ensures / invariant / decreases / invariant_except_break / ensures(loop)
    label: str     # e.g. C01.bind or ''
    text: str
    loop: int = -1


@dataclass
class Extract:
    args: dict
    clauses: list = field(default_factory=list)
    inserts: list = field(default_factory=list)     # (where, anchor, k, text)
    replaces: list = field(default_factory=list)    # (scope, old, new, expect)
    rules: set = field(default_factory=set)
    ret: str = ""
    desugar_for: list = field(default_factory=list)
    closures: list = field(default_factory=list)   # (ordinal, retdecl, ensures)
    entry: list = field(default_factory=list)      # proof/ghost text inserted at function entry
    exit_: list = field(default_factory=list)      # proof text appended at the end of a ()-returning body
    indexcalls: list = field(default_factory=list)  # R7: `recv[expr]` (read position) -> `recv.method(expr)`
    locals_: list = field(default_factory=list)    # (alias, "stmt pattern with $", nth): the alias used in hints names the binder at `$`
    folds: list = field(default_factory=list)   # (from anchor, to anchor, replacement text): statements FROM..TO (already under contract as a block of their own) become one call
    methodrenames: list = field(default_factory=list)  # R7: every `.old(` method call -> `.new(` (a wrapper trait method with the std contract)
    fallback: list = field(default_factory=list)   # text emitted instead when the item no longer exists
    derive_proof: list = field(default_factory=list)  # proof body of the `derive` lemma
    tmpl_line: int = 0
    rename: str = ""


DROP_HINT_IDENTS: set = set()   # retry mode: proof hints that name one of these (no longer existing) locals are dropped
DROPPED_HINTS: list = []
CLOSURE_FALLBACK = [True]   # re-attach a closure contract whose anchor text is gone to the closure with the same parameters
PATH_CANARIES = [False]     # thorough tier: reachability canaries after every statement of the extracted code (tools/canary.py)
CANARY_COUNT = [0]


def rw_path_canaries(toks, rep, qual, ex=None, unit_ret=False):
    """after every statement terminator `;` of the REAL code (innermost bracket `{`), and at the start of every block that
    holds such a statement, insert `proof { if verif_canary(K) { assert(false); } }` (K unique, `verif_canary` uninterpreted:
    a failed canary teaches the solver nothing about the others).  Every canary must be REJECTED; one that is not marks a
    point the verifier considers unreachable, i.e. everything proved after it was proved vacuously.  Skipped: statements
    that leave the block (`return`/`break`/`continue`), and everything after an `assert(false)` (a `debug_unreachable!`
    that rule R1 turned into a proof obligation: proved unreachable on purpose)."""
    out = list(toks)
    n = len(out)
    # bracket structure
    stack = []
    encl = {}
    for i, t in enumerate(out):
        if t.kind == PUNCT and t.text in OPEN:
            stack.append(i)
        elif t.kind == PUNCT and t.text in CLOSE:
            if stack:
                stack.pop()
        elif t.kind == PUNCT and t.text == ";":
            encl[i] = stack[-1] if stack else None
    ins = []          # (position, text)
    blocks = set()
    dead_blocks = set()
    ids = []
    keys = {}
    occ = {}
    # a `replace` whose pattern spans several statements must still find them adjacent: no canary inside such a match
    forbidden = set()
    for (scope, old, new, expect) in (ex.replaces if ex is not None else []):
        if scope != "replace" or ";" not in old:
            continue
        for (a0, b0) in _find_seq_any(out, pat_tokens(old)):
            forbidden.update(k for k in range(a0, b0) if out[k].kind == PUNCT and out[k].text == ";")
    for i in sorted(encl):
        ob = encl[i]
        if ob is None or out[ob].text != "{" or i in forbidden:
            continue
        # statement start: back to the previous `;` / `{` / `}` at the same nesting
        k = i - 1
        depth = 0
        while k > ob:
            tk = out[k]
            if tk.kind == PUNCT and tk.text in CLOSE:
                if depth == 0 and tk.text == "}":
                    # a block-like statement (`if .. { .. }`, `match .. { .. }`, a loop) ends here when what follows starts a
                    # new statement (an identifier / keyword other than `else`)
                    nx = _next_sig(out, k)
                    if nx <= i and out[nx].kind == IDENT and out[nx].text not in ("else", "as"):
                        break
                depth += 1
            elif tk.kind == PUNCT and tk.text in OPEN:
                depth -= 1
            elif depth == 0 and tk.kind == PUNCT and tk.text == ";":
                break
            k -= 1
        first = _next_sig(out, k)
        ftxt = out[first].text if first <= i else ";"
        stmt = "".join(t.text for t in out[first:i] if t.kind not in (WS, COMMENT))
        blocks.add(ob)
        if ob in dead_blocks:
            continue
        if stmt.startswith("assert(false") or stmt.startswith("assert!(false") or ftxt in ("unreachable", "panic", "unimplemented", "todo", "debug_unreachable"):
            dead_blocks.add(ob)
            continue
        if ftxt in ("return", "break", "continue"):
            continue
        CANARY_COUNT[0] += 1
        cid = CANARY_COUNT[0]
        ids.append(cid)
        key = "after:" + stmt[:70]
        occ[key] = occ.get(key, 0) + 1
        keys[cid] = f"{key}#{occ[key]}"
        ins.append((i + 1, f" proof {{ if verif_canary({cid}) {{ assert(false); }} }} // @CANARY.path.{cid}\n"))
    # a block that holds a proved-unreachable marker is dead on purpose: no canary in it at all
    ins = [(pos, text) for (pos, text) in ins if not any(ob < pos <= match_close(out, ob) for ob in dead_blocks)]
    for ob in sorted(blocks):
        if ob == 0 or ob in dead_blocks:
            continue    # the function body itself: covered by the entry canary
        # header of the block: from the start of its statement to the `{`
        k = ob - 1
        depth = 0
        while k > 0:
            tk = out[k]
            if tk.kind == PUNCT and tk.text in CLOSE:
                depth += 1
            elif tk.kind == PUNCT and tk.text in OPEN:
                if depth == 0:
                    break
                depth -= 1
            elif depth == 0 and tk.kind == PUNCT and tk.text in (";", ","):
                break
            k -= 1
        hdr = "".join(t.text for t in out[k + 1:ob] if t.kind not in (WS, COMMENT))
        CANARY_COUNT[0] += 1
        cid = CANARY_COUNT[0]
        ids.append(cid)
        key = "block:" + hdr[-70:]
        occ[key] = occ.get(key, 0) + 1
        keys[cid] = f"{key}#{occ[key]}"
        ins.append((ob + 1, f" proof {{ if verif_canary({cid}) {{ assert(false); }} }} // @CANARY.path.{cid}\n"))
    # end of every code block (and of the function body) that ends in a statement: the values that go out of scope there
    # have been resolved (this is where a contradictory resolution axiom of a double shows)
    last_stmt_leaves = {}
    for i in sorted(encl):
        pass
    for ob in sorted(blocks | {0}):
        if ob in dead_blocks:
            continue
        cb = match_close(out, ob)
        pv = _prev_sig(out, cb)
        if pv <= ob or not (out[pv].text == ";" or (out[pv].text == "}" and ob == 0 and unit_ret)):
            continue     # empty block or (possibly) a tail expression
        # does the last statement leave the block?
        k = pv - 1 if out[pv].text == ";" else pv
        depth = 0
        while k > ob:
            tk = out[k]
            if tk.kind == PUNCT and tk.text in CLOSE:
                if depth == 0 and tk.text == "}" and k != pv:
                    nx = _next_sig(out, k)
                    if out[nx].kind == IDENT and out[nx].text not in ("else", "as"):
                        break
                depth += 1
            elif tk.kind == PUNCT and tk.text in OPEN:
                depth -= 1
            elif depth == 0 and tk.kind == PUNCT and tk.text == ";":
                break
            k -= 1
        first = _next_sig(out, k)
        if out[first].text in ("return", "break", "continue"):
            continue
        CANARY_COUNT[0] += 1
        cid = CANARY_COUNT[0]
        ids.append(cid)
        key = "end:" + ("fn" if ob == 0 else "".join(t.text for t in out[max(ob - 12, 0):ob] if t.kind not in (WS, COMMENT))[-50:])
        occ[key] = occ.get(key, 0) + 1
        keys[cid] = f"{key}#{occ[key]}"
        semi = "; " if out[pv].text == "}" else ""     # a block-like (or assignment-from-block) last statement of type ()
        ins.append((cb, f" {semi}proof {{ if verif_canary({cid}) {{ assert(false); }} }} // @CANARY.path.{cid}\n"))
    for (pos, text) in sorted(ins, key=lambda x: -x[0]):
        out[pos:pos] = [T("raw", text)]
    if ids:
        rep.append(("CANARY", f"path canaries in {qual}: " + json.dumps({str(c): keys[c] for c in ids})))
    return out


# proof-hint bookkeeping for tools/hint_deps.py: every anchored hint seen while building, and the one to leave out
# item isolation (tools/run.py): functions / blocks whose BODY is outside the verifier's reach on the tree under test (type
# errors, lost block anchors) are emitted as external_body stubs with their contract, so that the rest of the unit is still
# decided; their own obligations are reported as undecided
FORCE_STUB: set = set()
ISOLATE_LOST_BLOCKS: list = [False]
# context of every anchored hint on the unchanged tree (the significant tokens right in front of a `before` hint's program point /
# right behind an `after` hint's): recorded by tools/hint_deps.py into /verif/hint_ctx.json; when the anchor text itself is gone
# (the anchored statement was edited or deleted) the hint is placed at the SAME program point found through this context
HINT_CTX_OUT: dict = {}
_HINT_CTX: list = [None]
CTX_TOKENS = 10


def _hint_ctx():
    if _HINT_CTX[0] is None:
        try:
            import json as _json
            _HINT_CTX[0] = _json.load(open(os.path.join(os.path.dirname(os.path.dirname(os.path.abspath(__file__))), "hint_ctx.json")))
        except Exception:
            _HINT_CTX[0] = {}
    return _HINT_CTX[0]


HINT_SITES: list = []
ABLATE_HINT: list = [None]
CALLPADS: list = []   # unit header `//! callpad: method N <text>`: a call `.method(a1..aN)` with exactly N arguments gets <text> appended
                      # (the unit's version of the method carries extra ghost arguments; call sites the templates' replaces do not
                      # know -- e.g. a call a change adds -- are given the neutral ghost values)


def rw_callpads(toks, rep):
    if not CALLPADS:
        return toks
    for (meth, n, pad) in CALLPADS:
        k = 0; cnt = 0
        while k < len(toks):
            t = toks[k]
            if t.kind == IDENT and t.text == meth:
                pv = _prev_sig(toks, k); nx = _next_sig(toks, k)
                if pv >= 0 and toks[pv].text == "." and nx < len(toks) and toks[nx].text == "(":
                    cl = match_close(toks, nx)
                    # count top-level arguments
                    args = 0; depth = 0; seen = False
                    q = nx + 1
                    while q < cl:
                        tq = toks[q]
                        if tq.kind == PUNCT and tq.text in OPEN:
                            q = match_close(toks, q) + 1; seen = True; continue
                        if tq.kind == PUNCT and tq.text == ",":
                            args += 1; seen = False
                        elif tq.kind not in (WS, COMMENT):
                            seen = True
                        q += 1
                    if seen:
                        args += 1
                    if args == n:
                        lastsig = _prev_sig(toks, cl)
                        lead = "" if toks[lastsig].text == "," else ","
                        toks[cl:cl] = [T("raw", lead + " " + pad)]
                        cnt += 1
            k += 1
        if cnt:
            rep.append(("R7", f"callpad: {cnt} call(s) of `.{meth}()` with {n} arguments padded with `{pad}`"))
    return toks


def _find_const_anywhere(repo, rel, name):
    """`const NAME: T = <literal / constant expression>;` declared anywhere in `rel` (also inside a function body), else in
    exactly one other source file of the crate; returns (file, text with `pub`) or None.  Only initializers without calls."""
    rx = re.compile(r"(?:pub(?:\([^)]*\))?\s+)?const\s+" + re.escape(name) + r"\s*:\s*[^=;]+=\s*[^;]*;")
    def scan(path):
        try:
            txt = open(path).read()
        except OSError:
            return None
        m = rx.search(txt)
        if not m:
            return None
        t = re.sub(r"//[^\n]*", "", m.group(0))
        t = re.sub(r"^pub(\([^)]*\))?\s+", "", t)
        init = t.split("=", 1)[1]
        if re.search(r"[A-Za-z_]\w*\s*\(", init):
            return None
        return "pub " + t
    t = scan(os.path.join(repo, rel))
    if t:
        return rel, t
    hits = []
    for root, _d, files in os.walk(os.path.join(repo, "src")):
        for f in files:
            if f.endswith(".rs"):
                pth = os.path.join(root, f)
                t = scan(pth)
                if t:
                    hits.append((os.path.relpath(pth, repo), t))
    return hits[0] if len(hits) == 1 else None


MUT_BINDINGS: list = []   # unit header `//! mut_bindings: Path::Variant ...`: `Path::Variant(x)` patterns bind `mut x`


def rw_mut_bindings(toks, rep):
    """a pattern `Path::Variant(ident)` of a listed variant binds `mut ident` (the double's methods take `&mut self` where
    the std method consumes the value; see the resolution axioms of the entry doubles)"""
    if not MUT_BINDINGS:
        return toks
    out = list(toks)
    for path in MUT_BINDINGS:
        pat = pat_tokens(path + "(")
        n = 0
        for (a, b) in reversed(_find_seq_any(out, pat)):
            k = _next_sig(out, b)
            if k < len(out) and out[k].kind == IDENT and out[k].text not in ("mut", "ref", "_"):
                k2 = _next_sig(out, k)
                if k2 < len(out) and out[k2].text == ")":
                    out[k:k] = [T("raw", "mut ")]
                    n += 1
        if n:
            rep.append(("R8c", f"`{path}(x)` binds `mut x` ({n}x)"))
    return out


def rw_R18_mut_self(sig_toks, body_toks, rep):
    """R18: `fn f(mut self, ..)` (unsupported by Verus) -> `fn f(self, ..) { let mut verif_self = self; .. }` with the
    body's `self` renamed to `verif_self` (pure renaming of a by-value receiver)."""
    sig = [q for q, t in enumerate(sig_toks) if t.kind not in (WS, COMMENT)]
    hit = None
    for a0 in range(len(sig) - 2):
        if sig_toks[sig[a0]].text == "(" and sig_toks[sig[a0 + 1]].text == "mut" and sig_toks[sig[a0 + 2]].text == "self":
            hit = sig[a0 + 1]; break
    if hit is None:
        return sig_toks, body_toks
    sig_toks = sig_toks[:hit] + sig_toks[hit + 1:]
    out = []
    for t in body_toks:
        if t.kind == IDENT and t.text == "self":
            out.append(T(IDENT, "verif_self"))
        else:
            out.append(t)
    first = next(q for q, t in enumerate(out) if t.text == "{")
    out[first + 1:first + 1] = [T("raw", " let mut verif_self = self; ")]
    rep.append(("R18", "`mut self` receiver -> `self` + `let mut verif_self = self;` (body's self renamed)"))
    return sig_toks, out


def rw_R17_ctor_fn(toks, rep):
    """R17: an enum-variant constructor passed as a function (`.map(SocketAddr::V4)`, `.map_err(Error::X)`) is eta-expanded
    into a closure with its obvious contract: `.map(|verif_e| -> (verif_r: SocketAddr) ensures verif_r == SocketAddr::V4(verif_e)
    { SocketAddr::V4(verif_e) })` (Verus has no model of constructors used as function values)"""
    out = list(toks)
    n = 0
    i = len(out) - 1
    while i >= 0:
        t = out[i]
        if t.kind == IDENT and t.text in ("map", "map_err") and _prev_sig(out, i) >= 0 and out[_prev_sig(out, i)].text == ".":
            o = _next_sig(out, i)
            if o < len(out) and out[o].text == "(":
                c = match_close(out, o)
                inner = [k for k in range(o + 1, c) if out[k].kind not in (WS, COMMENT)]
                txt = [out[k].text for k in inner]
                # Path :: Variant   (`::` lexes as two ':' tokens or one '::' token)
                joined = "".join(txt)
                m = re.fullmatch(r"([A-Z]\w*)::([A-Z]\w*)", joined)
                if m and m.group(1) not in ("Some", "Ok", "Err", "Box"):
                    en, va = m.group(1), m.group(2)
                    new = f"|verif_e| -> (verif_r: {en}) ensures verif_r == {en}::{va}(verif_e) {{ {en}::{va}(verif_e) }}"
                    out[o + 1:c] = [T("raw", new)]
                    n += 1
        i -= 1
    if n:
        rep.append(("R17", f"{n} constructor(s) used as function value eta-expanded with contract"))
    return out


DIRECTIVE = re.compile(r"^\s*//@(\+?)\s?(.*)$")


def parse_kv(s):
    """file=a impl="impl X" fn=y  -> dict"""
    d = {}
    for m in re.finditer(r'(\w+)=("([^"]*)"|\S+)', s):
        d[m.group(1)] = m.group(3) if m.group(3) is not None else m.group(2)
    return d


def parse_template(text):
    """-> list of ('text', str, lineno) | ('extract', Extract)"""
    parts = []
    lines = text.split("\n")
    i = 0
    cur = None
    last = None   # (list, index) of the clause/insert to which //@+ appends
    buf = []
    while i < len(lines):
        ln = lines[i]
        m = DIRECTIVE.match(ln)
        if not m:
            if cur is not None:
                if ln.strip() == "":
                    i += 1; continue
                raise TemplateError(f"line {i+1}: non-directive line inside //@extract block")
            buf.append(ln); i += 1; continue
        cont, body = m.group(1), m.group(2)
        if cur is None:
            if body.startswith("extract "):
                if buf:
                    parts.append(("text", "\n".join(buf))); buf = []
                cur = Extract(parse_kv(body[len("extract "):]), tmpl_line=i + 1)
                last = None
            else:
                buf.append(ln)   # e.g. //@ comments outside blocks are kept as text
            i += 1; continue
        # inside a block
        if cont:
            if last is None:
                raise TemplateError(f"line {i+1}: //@+ without a clause")
            kind, obj = last
            if kind == "clause":
                obj.text += "\n" + body
            elif kind == "insert":
                obj[3] += "\n" + body
            i += 1; continue
        if body.strip() == "end":
            parts.append(("extract", cur)); cur = None; last = None
            i += 1; continue
        mm = re.match(r"^(requires|ensures|decreases|returns)\s*([\w.\-]*)\s*:\s?(.*)$", body)
        if mm:
            c = Clause(mm.group(1), mm.group(2), mm.group(3))
            cur.clauses.append(c); last = ("clause", c); i += 1; continue
        # `derive LABEL: P` — a lemma over this function's contract: emitted after the function as a proof fn whose
        # requires are ALL the function's requires/ensures (old(self) -> pre, final(self) -> post) and whose ensures is P
        mm = re.match(r"^derive\s+([\w.\-]+)\s*:\s?(.*)$", body)
        if mm:
            c = Clause("derive", mm.group(1), mm.group(2))
            cur.clauses.append(c); last = ("clause", c); i += 1; continue
        mm = re.match(r"^derive_proof\s*:\s?(.*)$", body)
        if mm:
            ins = ["derive_proof", "", 1, mm.group(1)]
            cur.derive_proof.append(ins); last = ("insert", ins); i += 1; continue
        mm = re.match(r"^loop\s+(\d+)\s+pre\s*:\s?(.*)$", body)
        if mm:
            c = Clause("looppre", "", mm.group(2), loop=int(mm.group(1)))
            cur.clauses.append(c); last = ("clause", c); i += 1; continue
        mm = re.match(r"^loop\s+(\d+)\s+(returns|after)\s*:\s?(.*)$", body)
        if mm:
            c = Clause("loop" + mm.group(2), "", mm.group(3), loop=int(mm.group(1)))
            cur.clauses.append(c); last = ("clause", c); i += 1; continue
        mm = re.match(r"^loop\s+(\d+)\s+tail\s*:\s?(.*)$", body)
        if mm:
            c = Clause("looptail", "", mm.group(2), loop=int(mm.group(1)))
            cur.clauses.append(c); last = ("clause", c); i += 1; continue
        mm = re.match(r"^loop\s+(\d+)\s+head\s*:\s?(.*)$", body)
        if mm:
            c = Clause("loophead", "", mm.group(2), loop=int(mm.group(1)))
            cur.clauses.append(c); last = ("clause", c); i += 1; continue
        mm = re.match(r"^loop\s+(\d+)\s+entry\s*:\s?(.*)$", body)
        if mm:
            c = Clause("loopentry", "", mm.group(2), loop=int(mm.group(1)))
            cur.clauses.append(c); last = ("clause", c); i += 1; continue
        mm = re.match(r"^loop\s+(\d+)\s+(invariant|invariant_except_break|ensures|decreases)\s*([\w.\-]*)\s*:\s?(.*)$", body)
        if mm:
            c = Clause(mm.group(2), mm.group(3), mm.group(4), loop=int(mm.group(1)))
            cur.clauses.append(c); last = ("clause", c); i += 1; continue
        mm = re.match(r'^(after_arm|before_arm|after|before)\s+"((?:[^"\\]|\\.)*)"\s*(?:#(\d+))?\s*:\s?(.*)$', body)
        if mm:
            ins = [mm.group(1), _unesc(mm.group(2)), int(mm.group(3) or 1), mm.group(4)]
            cur.inserts.append(ins); last = ("insert", ins); i += 1; continue
        mfold = re.match(r'^fold\s+"((?:[^"\\]|\\.)*)"\s*\.\.\s*"((?:[^"\\]|\\.)*)"\s*=>\s*"((?:[^"\\]|\\.)*)"\s*$', body)
        if mfold:
            cur.folds.append((_unesc(mfold.group(1)), _unesc(mfold.group(2)), _unesc(mfold.group(3))))
            last = None; i += 1; continue
        mopt = re.match(r'^replace\?\s+"((?:[^"\\]|\\.)*)"\s*=>\s*"((?:[^"\\]|\\.)*)"\s*$', body)
        if mopt:
            # `replace?`: a rewrite for an ALTERNATIVE shape of the code; silently skipped when the text is absent
            cur.replaces.append(("replace", _unesc(mopt.group(1)), _unesc(mopt.group(2)), 0))
            last = None; i += 1; continue
        mm = re.match(r'^(replace|sigreplace|implreplace)\s+"((?:[^"\\]|\\.)*)"\s*(?:#(\d+)\s*)?=>\s*"((?:[^"\\]|\\.)*)"\s*(?:x(\d+))?\s*$', body)
        if mm:
            # `#k`: only the k-th occurrence is rewritten (stored as a negative `expect`)
            cur.replaces.append((mm.group(1), _unesc(mm.group(2)), _unesc(mm.group(4)),
                                 (-int(mm.group(3))) if mm.group(3) else (int(mm.group(5)) if mm.group(5) else None)))
            last = None; i += 1; continue
        mm = re.match(r"^fallback\s*:\s?(.*)$", body)
        if mm:
            ins = ["fallback", "", 1, mm.group(1)]
            cur.fallback.append(ins); last = ("insert", ins); i += 1; continue
        mm = re.match(r'^indexcall\s+"((?:[^"\\]|\\.)*)"\s*=>\s*"(\w+)"\s*$', body)
        if mm:
            cur.indexcalls.append((_unesc(mm.group(1)), mm.group(2))); i += 1; continue
        mm = re.match(r'^local\s+(\w+)\s*:\s*"((?:[^"\\]|\\.)*)"\s*(?:#(\d+))?\s*$', body)
        if mm:
            cur.locals_.append((mm.group(1), _unesc(mm.group(2)), int(mm.group(3) or 1))); i += 1; continue
        mm = re.match(r'^methodrename\s+"(\w+)"\s*=>\s*"(\w+)"\s*$', body)
        if mm:
            cur.methodrenames.append((mm.group(1), mm.group(2))); i += 1; continue
        mm = re.match(r"^exit\s*:\s?(.*)$", body)
        if mm:
            ins = ["exit", "", 1, mm.group(1)]
            cur.exit_.append(ins); last = ("insert", ins); i += 1; continue
        mm = re.match(r"^entry\s*:\s?(.*)$", body)
        if mm:
            ins = ["entry", "", 1, mm.group(1)]
            cur.entry.append(ins); last = ("insert", ins); i += 1; continue
        mm = re.match(r"^rules\s*:\s*(.*)$", body)
        if mm:
            cur.rules |= set(mm.group(1).replace(",", " ").split()); i += 1; continue
        mm = re.match(r"^ret\s*:\s*(\w+)\s*$", body)
        if mm:
            cur.ret = mm.group(1); i += 1; continue
        mm = re.match(r"^desugar_for\s*:\s*([\d ,]+)$", body)
        if mm:
            cur.desugar_for = [int(x) for x in mm.group(1).replace(",", " ").split()]
            i += 1; continue
        mm = re.match(r'^closure(\?)?\s+"((?:[^"\\]|\\.)*)"\s*(?:#(\d+))?\s*->\s*(\((?:[^()]|\([^()]*\))*\))\s*(?:requires\s+(.*?)\s+)?ensures\s*:\s?(.*)$', body)
        if mm:
            c = Clause("closure", "", mm.group(6))
            c.loop = -2
            rd = mm.group(4) + (f" requires {mm.group(5)}" if mm.group(5) else "")
            # `closure?` = contract for an alternative shape of the code: silently skipped when that shape is absent
            cur.closures.append([("anchor?" if mm.group(1) else "anchor", _unesc(mm.group(2)), int(mm.group(3) or 1)), rd, c])
            last = ("clause", c); i += 1; continue
        mm = re.match(r"^closure\s+(\d+)\s*->\s*(\((?:[^()]|\([^()]*\))*\))\s*(?:requires\s+(.*?)\s+)?ensures\s*:\s?(.*)$", body)
        if mm:
            c = Clause("closure", "", mm.group(4))
            c.loop = -2
            rd = mm.group(2) + (f" requires {mm.group(3)}" if mm.group(3) else "")
            cur.closures.append([int(mm.group(1)), rd, c])
            last = ("clause", c); i += 1; continue
        mm = re.match(r"^rename\s*:\s*(\w+)\s*$", body)
        if mm:
            cur.rename = mm.group(1); i += 1; continue
        if body.strip().startswith("#") or body.strip() == "":
            i += 1; continue
        raise TemplateError(f"line {i+1}: unknown directive: {body}")
    if cur is not None:
        raise TemplateError("unterminated //@extract block")
    if buf:
        parts.append(("text", "\n".join(buf)))
    return parts


def _unesc(s):
    return s.replace('\\"', '"').replace("\\\\", "\\")


@dataclass
class Built:
    text: str
    linemap: dict          # generated line -> dict(label, fn, unit_fn, src_file, src_line, kind)
    fn_ranges: list        # (first_line, last_line, fnname, props, src)
    report: list           # extraction report entries
    clauses: list          # all labelled/unlabelled clauses spliced (dict)
    assumptions: list      # trusted declarations found in the template text


def _stmt_end_after(toks, idx):
    """index one past the end of the statement that contains token idx: the next ';' at
    the same nesting depth, or the closing '}' of a block-like statement."""
    depth = 0
    i = idx
    n = len(toks)
    while i < n:
        t = toks[i]
        if t.kind == PUNCT and t.text in OPEN:
            i = match_close(toks, i) + 1
            # block-like statement (if/match/loop) ends at '}' when next sig is not ';'/'.'/else/?
            if toks[i - 1].text == "}":
                nx = i
                while nx < n and toks[nx].kind in (WS, COMMENT):
                    nx += 1
                if nx < n and (toks[nx].text in (";",)):
                    return nx + 1
                if nx < n and (toks[nx].text in (".", "?", ")", ",") or
                               (toks[nx].kind == IDENT and toks[nx].text in ("else", "as"))):
                    continue
                return i
            continue
        if t.kind == PUNCT and t.text == ";":
            return i + 1
        if t.kind == PUNCT and t.text in CLOSE:
            return i     # end of enclosing block: insert before the close
        i += 1
    return n


def _stmt_end_from_start(toks, start):
    """end (exclusive) of the statement whose first token is at `start`"""
    return _stmt_end_after(toks, start)


def _hoist_preceding_lets(body_toks, s, a, rep):
    """A block given by its first statement is extended backwards over immediately preceding `let NAME [: T] = ..;`
    statements whose NAME the block uses and the wrapper does not bind: a change that introduces a temporary just in front
    of the block keeps the block within reach.  On the unchanged tree there is no such statement (the block would not
    type-check without it), so nothing changes there."""
    wrap_names = set(re.findall(r"[A-Za-z_]\w*", a.get("wrap", "")))
    while True:
        p = _prev_sig(body_toks, s)
        if p < 1 or body_toks[p].text != ";":
            return s
        st = _stmt_start_before(body_toks, p, 1)
        sig = [t for t in body_toks[st:p] if t.kind not in (WS, COMMENT, "raw")]
        if len(sig) < 4 or sig[0].text != "let":
            return s
        k = 1
        if sig[k].text == "mut":
            k += 1
        if sig[k].kind != IDENT or sig[k + 1].text not in ("=", ":"):
            return s
        name = sig[k].text
        used = any(t.kind == IDENT and t.text == name for t in body_toks[s:])
        if name in wrap_names or not used:
            return s
        rep.append(("R0", f"inline block extended backwards over `let {name} = ..;` (bound right in front of the block, used inside it)"))
        s = st


def _stmt_start_before(toks, idx, lo):
    """index of the first token of the statement containing token idx (scan back to the
    previous ';', '{' or '}' at the same depth)."""
    i = idx - 1
    while i >= lo:
        t = toks[i]
        if t.kind == PUNCT and t.text in CLOSE:
            # skip balanced group backwards
            depth = 0
            j = i
            while j >= lo:
                if toks[j].kind == PUNCT and toks[j].text in CLOSE:
                    depth += 1
                elif toks[j].kind == PUNCT and toks[j].text in OPEN:
                    depth -= 1
                    if depth == 0:
                        break
                j -= 1
            if toks[i].text == "}":
                # a '}' ends a previous block-like statement unless followed by . ? etc;
                # we are scanning backwards from inside a statement, so treat as boundary
                # only if what follows it is not a continuation
                nx = i + 1
                while nx < idx and toks[nx].kind in (WS, COMMENT):
                    nx += 1
                if not (toks[nx].text in (".", "?", ")", ",", ";") or
                        (toks[nx].kind == IDENT and toks[nx].text in ("else", "as"))):
                    return nx
            i = j - 1
            continue
        if t.kind == PUNCT and t.text in (";", "{"):
            j = i + 1
            while j < idx and toks[j].kind in (WS, COMMENT):
                j += 1
            return j
        i -= 1
    return lo


UNITS_DIR = os.path.join(os.path.dirname(os.path.dirname(os.path.abspath(__file__))), "units")


def expand_includes(text, depth=0):
    """`//@include <file>` (relative to /verif/units) is replaced by the file's text."""
    if depth > 5:
        raise TemplateError("include depth exceeded")
    out = []
    for ln in text.split("\n"):
        m = re.match(r"^\s*//@include\s+(\S+)\s*$", ln)
        if m:
            pth = os.path.join(UNITS_DIR, m.group(1))
            try:
                inc = open(pth).read()
            except OSError as e:
                raise TemplateError(f"include {m.group(1)}: {e}")
            out.append(f"// ---- begin include {m.group(1)} ----")
            out.append(expand_includes(inc, depth + 1))
            out.append(f"// ---- end include {m.group(1)} ----")
        else:
            out.append(ln)
    return "\n".join(out)


def expand_imports(text):
    """`//@import unit=<u> [impl="..."] fn=<name>`: the extract block of that function in unit <u>
    is re-used here as an external_body *stub* (its contract is assumed in this unit and
    proved in unit <u>): signature from /repo, requires/ensures from <u>, no body."""
    out = []
    cache = {}
    for ln in text.split("\n"):
        m = re.match(r"^\s*//@import\s+(.*)$", ln)
        if not m:
            out.append(ln); continue
        kv = parse_kv(m.group(1))
        u = kv.get("unit")
        if u not in cache:
            try:
                t = expand_includes(open(os.path.join(UNITS_DIR, u + ".vu")).read())
            except OSError as e:
                raise TemplateError(f"import: {e}")
            cache[u] = [p[1] for p in parse_template(t) if p[0] == "extract"]
        cands = [e for e in cache[u] if e.args.get("fn") == kv.get("fn")
                 and ("impl" not in kv or norm(e.args.get("impl", "")) == norm(kv["impl"]))]
        if len(cands) != 1:
            raise TemplateError(f"import unit={u} fn={kv.get('fn')}: {len(cands)} matching extract blocks")
        e = cands[0]
        args = dict(e.args); args["mode"] = "stub"; args["from_unit"] = u
        if "props" in kv:
            args["props"] = kv["props"]
        out.append("//@extract " + " ".join(f'{k}="{v}"' for k, v in args.items()))
        if e.ret:
            out.append(f"//@ ret: {e.ret}")
        if e.rename:
            out.append(f"//@ rename: {e.rename}")
        for (scope, old, new, expect) in e.replaces:
            if scope in ("sigreplace", "implreplace"):
                o = old.replace("\\", "\\\\").replace('"', '\\"'); n_ = new.replace("\\", "\\\\").replace('"', '\\"')
                out.append(f'//@ {scope} "{o}" => "{n_}"')
        if "R2" in e.rules:
            out.append("//@ rules: R2")
        for c in e.clauses:
            if c.loop == -1:
                lines = c.text.split("\n")
                out.append(f"//@ {c.kind} {c.label}: {lines[0]}")
                for l2 in lines[1:]:
                    out.append(f"//@+ {l2}")
        out.append("//@end")
    return "\n".join(out)


# ---- guarded lemma calls in proof hints --------------------------------------------------------------------------------------
# A hint `lemma(args);` whose lemma has a `requires` is a hazard on CHANGED code: when the precondition no longer holds Verus
# reports it (a hint failure = undecided) and then ASSUMES the lemma's conclusion, which can hide the failure of the code's own
# obligation behind it.  Every such call in a hint is therefore rewritten to `if verif_pre_lemma(args) { lemma(args); }`, where
# `verif_pre_lemma` is a generated spec fn holding the conjunction of the lemma's requires clauses: on the unchanged tree the
# proof is the same (the solver shows the guard itself), on changed code nothing is assumed that does not hold.
GUARDED_LEMMAS = {}


def _split_top_commas(txt):
    """split a `requires` clause list at its top-level commas (not inside brackets, not inside `|binders|`)"""
    parts, cur, depth, i, n = [], [], 0, 0, len(txt)
    while i < n:
        ch = txt[i]
        if ch in "([{":
            depth += 1
        elif ch in ")]}":
            depth -= 1
        elif ch == "|" and i + 1 < n and txt[i + 1] == "|":
            cur.append("||"); i += 2; continue
        elif ch == "|":
            # binder list of a quantifier or closure: copy up to the closing `|`
            j = txt.find("|", i + 1)
            if j < 0:
                return None
            cur.append(txt[i:j + 1]); i = j + 1; continue
        elif ch == "," and depth == 0:
            parts.append("".join(cur).strip()); cur = []; i += 1; continue
        cur.append(ch); i += 1
    last = "".join(cur).strip()
    if last:
        parts.append(last)
    return [p_ for p_ in parts if p_]


def _balanced(txt, i, op, cl):
    """txt[i] == op: index just past the matching close"""
    d = 0
    for j in range(i, len(txt)):
        if txt[j] == op:
            d += 1
        elif txt[j] == cl:
            d -= 1
            if d == 0:
                return j + 1
    return -1


def collect_guarded_lemmas(template_text):
    """returns {name: (generics, params, pre)} for plain `proof fn`s of the unit text that have a `requires`"""
    res = {}
    txt = re.sub(r"//[^\n]*", "", template_text)
    for m in re.finditer(r"(?<!broadcast )\bproof fn (\w+)", txt):
        name = m.group(1)
        i = m.end()
        gen = ""
        if txt[i:i + 1] == "<":
            j = _balanced(txt, i, "<", ">")
            if j < 0:
                continue
            gen = txt[i:j]; i = j
        if txt[i:i + 1] != "(":
            continue
        j = _balanced(txt, i, "(", ")")
        if j < 0:
            continue
        params = txt[i + 1:j - 1].strip()
        rest = txt[j:j + 4000]
        mm = re.match(r"\s*requires\b", rest)
        if not mm or "self" in re.split(r"[,:]", params)[0]:
            continue
        body = rest[mm.end():]
        # the clause list ends at the first top-level `ensures` / `decreases` / `{`
        depth = 0; end = None; k = 0
        while k < len(body):
            ch = body[k]
            if ch in "([":
                depth += 1
            elif ch in ")]":
                depth -= 1
            elif ch == "{" and depth == 0 and not re.search(r"(==>|&&|\|\||==|=>|\(|,|\blet\b[^;]*=|\bif\b[^{]*|\belse|\bmatch\b[^{]*)\s*$", body[:k]):
                end = k; break
            elif ch == "{":
                k = _balanced(body, k, "{", "}") ; 
                if k < 0:
                    break
                continue
            elif depth == 0 and re.match(r"\b(ensures|decreases)\b", body[k:k + 10]) and (k == 0 or not (body[k - 1].isalnum() or body[k - 1] == "_")):
                end = k; break
            k += 1
        if end is None:
            continue
        clauses = _split_top_commas(body[:end])
        if not clauses:
            continue
        res[name] = (gen, params, " && ".join(f"({c})" for c in clauses))
    return res


def guard_lemma_calls(text, lemmas):
    """`lemma(args);` -> `if verif_pre_lemma(args) { lemma(args); }` for every guarded lemma named in a hint text"""
    if not lemmas:
        return text
    out = text
    for name in lemmas:
        pos = 0
        while True:
            m = re.search(r"(?<![\w.:])" + re.escape(name) + r"\s*(::\s*<)?", out[pos:])
            if not m:
                break
            a = pos + m.start()
            i = pos + m.end()
            turbo = ""
            if m.group(1):
                j = _balanced(out, i - 1, "<", ">")
                if j < 0:
                    pos = i; continue
                turbo = "::" + out[i - 1:j]; i = j
            k = i
            while k < len(out) and out[k].isspace():
                k += 1
            if out[k:k + 1] != "(":
                pos = i; continue
            j = _balanced(out, k, "(", ")")
            if j < 0:
                pos = i; continue
            args = out[k:j]
            # already guarded by hand (`if pre { lemma(..) }`): leave alone
            before = out[max(0, a - 40):a]
            if re.search(r"\{\s*$", before) and re.search(r"\bif\b[^;{}]*\{\s*$", out[max(0, a - 400):a]):
                pos = j; continue
            e = j
            while e < len(out) and out[e].isspace():
                e += 1
            semi = ";" if out[e:e + 1] == ";" else ""
            endp = e + 1 if semi else j
            rep_ = f"if verif_pre_{name}{turbo}{args} {{ {name}{turbo}{args}; }}"
            out = out[:a] + rep_ + out[endp:]
            pos = a + len(rep_)
    return out



def build(template_text: str, repo: str, unit: str) -> Built:
    template_text = expand_imports(expand_includes(template_text))
    ASSERT_KW[0] = "assert!" if "#[cfg(kani)]" in template_text else "assert"
    CANARY_COUNT[0] = 0
    if PATH_CANARIES[0]:
        template_text = template_text.replace("verus! {", "verus! {\npub uninterp spec fn verif_canary(k: int) -> bool;", 1)
    HINT_SITES.clear(); HINT_CTX_OUT.clear()
    lemmas_ = {} if re.search(r"^//! unguarded_lemmas:\s*all\b", template_text, re.M) else collect_guarded_lemmas(template_text)
    mu_ = re.search(r"^//! unguarded_lemmas:\s*(.+)$", template_text, re.M)
    for nm_ in (mu_.group(1).split() if mu_ else []):
        lemmas_.pop(nm_, None)
    used_lemmas_ = set()
    parts = parse_template(template_text)
    def _mark_hint(text):
        out_l = []
        for ln in text.split("\n"):
            if "/*@hint*/" in ln or not ln.strip():
                out_l.append(ln); continue
            k = ln.rfind("// @")
            out_l.append(ln[:k] + "/*@hint*/ " + ln[k:] if k >= 0 else ln + " /*@hint*/")
        return "\n".join(out_l)
    for part in parts:
        if part[0] == "text":
            continue
        exx = part[1]
        for ins in exx.inserts + exx.entry + exx.exit_ + exx.derive_proof:
            # entries are `ident` (unit-wide) or `fn::ident` (only the hints of that extracted function)
            fn_here = exx.args.get("fn", "")
            gone = [x.split("::")[-1] for x in DROP_HINT_IDENTS if ("::" not in x or x.split("::")[0] == fn_here)
                    and re.search(r"(?<![\w.])" + re.escape(x.split("::")[-1]) + r"\b", ins[3])]
            if gone:
                DROPPED_HINTS.append(f"LOST: proof hint dropped, it names `{gone[0]}`, which the code no longer binds: {ins[3][:80]!r}")
                ins[3] = f"/* hint dropped: names `{gone[0]}` */"
                continue
            g_ = guard_lemma_calls(ins[3], lemmas_)
            if g_ != ins[3]:
                used_lemmas_.update(n_ for n_ in lemmas_ if ("verif_pre_" + n_) in g_)
            ins[3] = _mark_hint(g_)
        for c in exx.clauses:
            if c.kind in ("loopentry", "looppre", "loophead", "looptail", "loopreturns", "loopafter"):
                g_ = guard_lemma_calls(c.text, lemmas_)
                if g_ != c.text:
                    used_lemmas_.update(n_ for n_ in lemmas_ if ("verif_pre_" + n_) in g_)
                c.text = _mark_hint(g_)
    if used_lemmas_:
        gen_ = "\n".join(f"/// generated: the requires clauses of `{n_}` (guard of its calls in proof hints)\npub open spec fn verif_pre_{n_}{lemmas_[n_][0]}({lemmas_[n_][1]}) -> bool {{ {lemmas_[n_][2]} }}" for n_ in sorted(used_lemmas_))
        for pi_ in range(len(parts) - 1, -1, -1):
            if parts[pi_][0] == "text" and "} // verus!" in parts[pi_][1]:
                parts[pi_] = ("text", parts[pi_][1].replace("} // verus!", gen_ + "\n} // verus!", 1)) if isinstance(parts[pi_], tuple) else ["text", parts[pi_][1].replace("} // verus!", gen_ + "\n} // verus!", 1)]
                break
        else:
            raise TemplateError("guarded lemmas: no `} // verus!` text part to place the generated guards in")
    mm_ = re.search(r"^//! mut_bindings:\s*(.+)$", template_text, re.M)
    MUT_BINDINGS[:] = mm_.group(1).split() if mm_ else []
    CALLPADS[:] = [(m3.group(1), int(m3.group(2)), m3.group(3)) for m3 in re.finditer(r"^//! callpad:\s*(\w+)\s+(\d+)\s+(.+)$", template_text, re.M)]
    mb = re.search(r"^//! broadcast_use:\s*(.+)$", template_text, re.M)
    if mb:
        # unit-wide `broadcast use` (e.g. the drop-resolution axioms of the container doubles): appended to the entry
        # hints of every extracted function, after any hint that must come first (`hide(..)`)
        names = ", ".join(mb.group(1).split())
        for part in parts:
            if part[0] != "text" and "fn" in part[1].args and part[1].args.get("mode") != "stub":
                part[1].entry.append(["entry", "", 1, f"broadcast use {{{names}}};"])
    out_lines: list[str] = []
    linemap = {}
    fn_ranges = []
    report = []
    clauses_out = []
    files = {}
    auto_consts = set()

    def emit(s, meta=None):
        for ln in s.split("\n"):
            out_lines.append(ln)
            if meta:
                linemap[len(out_lines)] = dict(meta)

    for part in parts:
        if part[0] == "text":
            emit(part[1])
            continue
        ex: Extract = part[1]
        a = ex.args
        rel = a.get("file")
        if not rel:
            raise TemplateError(f"template line {ex.tmpl_line}: extract needs file=")
        sf = files.get(rel)
        if sf is None:
            sf = files[rel] = SourceFile(repo, rel)
        props = [p for p in a.get("props", "").split(",") if p]
        rep = []
        if "fn" in a:
            try:
                item, impl = sf.find(impl=a.get("impl"), kind="fn", name=a["fn"])
            except AnchorLost as e:
                if a.get("optional") == "1":
                    # an item that exists only in an alternative shape of the code (e.g. a hand-written impl in place of a derive)
                    report.append(dict(item=f"{a.get('impl','')}::{a['fn']}", src=rel, sha256="", rewrites=["optional item not present: skipped"]))
                    continue
                if ex.fallback:
                    emit(f"// ---- item lost ({e}); fallback text from the unit template ----")
                    emit("\n".join(f_[3] for f_ in ex.fallback))
                    report.append(dict(item=f"{a.get('impl','')}::{a['fn']}", src=rel, sha256="", rewrites=[f"LOST: {e}; fallback text used"]))
                    continue
                raise
            text, meta = _build_fn(sf, item, impl, ex, props, rep, unit, a)
            # R15: a constant of the same source file that the function refers to and the unit does not define is
            # extracted automatically (a refactoring that names a literal must not put the function out of reach)
            for cname in sorted(set(re.findall(r"\b[A-Z][A-Z0-9_]{2,}\b", text))):
                if re.search(r"\b(const|static|fn|struct|enum|type)\s+" + re.escape(cname) + r"\b", template_text) or cname in auto_consts:
                    continue
                if re.search(r"\b" + re.escape(cname) + r"\b", "\n".join(out_lines)) and re.search(r"\b(const|static)\s+" + re.escape(cname) + r"\b", "\n".join(out_lines)):
                    continue
                try:
                    citem, _ = sf.find(kind="const", name=cname)
                except AnchorLost:
                    # R15c: a constant declared inside a function of this file, or in another file of the crate (unique by name)
                    got = _find_const_anywhere(repo, rel, cname)
                    if got is None:
                        continue
                    crel, ctext = got
                    # constants its initializer names are pulled in first
                    for dep in sorted(set(re.findall(r"\b[A-Z][A-Z0-9_]{2,}\b", ctext.split("=", 1)[1] if "=" in ctext else ""))):
                        if dep == cname or dep in auto_consts or re.search(r"\b(const|static)\s+" + re.escape(dep) + r"\b", template_text + "\n".join(out_lines)):
                            continue
                        g2 = _find_const_anywhere(repo, rel, dep)
                        if g2 is not None:
                            emit(f"// ---- auto-extracted (R15c) {g2[0]} :: const {dep} ----")
                            emit(g2[1]); auto_consts.add(dep)
                            report.append(dict(item=f"const {dep}", src="auto", sha256=hashlib.sha256((g2[1]).encode()).hexdigest(), rewrites=["R15: extracted automatically"]))
                            rep.append(("R15", f"const {dep} of {g2[0]} extracted automatically (named by const {cname})"))
                    emit(f"// ---- auto-extracted (R15c) {crel} :: const {cname} ----")
                    emit(ctext); auto_consts.add(cname)
                    report.append(dict(item=f"const {cname}", src="auto", sha256=hashlib.sha256((ctext).encode()).hexdigest(), rewrites=["R15: extracted automatically"]))
                    rep.append(("R15", f"const {cname} of {crel} extracted automatically (function-local or other file)"))
                    continue
                ctoks = rw_vis(rw_strip_comments(list(sf.toks[citem.start:citem.end]), rep), rep)
                fs = next((t for t in ctoks if t.kind not in (WS, COMMENT)), None)
                ctxt = ("pub " if fs is not None and fs.kind == IDENT and fs.text == "const" else "") + text_of(ctoks)
                emit(f"// ---- auto-extracted (R15) {rel}:{sf.line_of(citem.start)} :: const {cname} ----")
                init = ctxt.split("=", 1)[1] if "=" in ctxt else ""
                m_lit = re.fullmatch(r"\s*(0x[0-9a-fA-F_]+|\d[\d_]*)_?(u8|u16|u32|u64|u128)\s*\.\s*to_(be|le)_bytes\s*\(\s*\)\s*;?\s*", init)
                if m_lit:
                    # `<literal>.to_be_bytes()`: evaluated here (constant folding of a literal), the value stays visible
                    nbytes = int(m_lit.group(2)[1:]) // 8
                    val = int(m_lit.group(1).replace("_", ""), 0)
                    bs = val.to_bytes(nbytes, "big" if m_lit.group(3) == "be" else "little")
                    ctxt = ctxt.split("=", 1)[0] + "= [" + ", ".join(f"{b}u8" for b in bs) + "];"
                    rep.append(("R15", f"const {cname}: `{init.strip()[:40]}` folded to its bytes"))
                elif re.search(r"[A-Za-z_]\w*\s*(::\s*<[^>]*>\s*)?\(", init):
                    # the initializer calls a function (`0x0001_u16.to_be_bytes()`): outside what Verus evaluates for a
                    # constant; the constant is declared with its value left open
                    emit("#[verifier::external_body]")
                    rep.append(("R15", f"const {cname}: initializer is a call, value left opaque (external_body)"))
                emit(ctxt)
                auto_consts.add(cname)
                report.append(dict(item=f"const {cname}", src="auto", sha256=hashlib.sha256((ctxt).encode()).hexdigest(), rewrites=["R15: extracted automatically"]))
                rep.append(("R15", f"const {cname} of {rel} extracted automatically"))
            # R15b: likewise a type alias of the same source file (`type Aes128Ctr = ctr::Ctr128BE<aes::Aes128>;`)
            for tname in sorted(set(re.findall(r"\b[A-Z][a-z0-9]+[A-Za-z0-9]*\b", text))):
                if tname in auto_consts or re.search(r"\b(struct|enum|type|trait|mod|fn|impl(<[^>]*>)?)\s+" + re.escape(tname) + r"\b", template_text + "\n".join(out_lines)):
                    continue
                try:
                    titem, _ = sf.find(kind="type", name=tname)
                except (AnchorLost, Exception):
                    continue
                ttoks = rw_vis(rw_strip_comments(list(sf.toks[titem.start:titem.end]), rep), rep)
                fs = next((t for t in ttoks if t.kind not in (WS, COMMENT)), None)
                ttxt = ("pub " if fs is not None and fs.kind == IDENT and fs.text == "type" else "") + text_of(ttoks)
                emit(f"// ---- auto-extracted (R15b) {rel}:{sf.line_of(titem.start)} :: type {tname} ----")
                emit(ttxt)
                auto_consts.add(tname)
                report.append(dict(item=f"type {tname}", src="auto", sha256=hashlib.sha256((ttxt).encode()).hexdigest(), rewrites=["R15: extracted automatically"]))
                rep.append(("R15", f"type alias {tname} of {rel} extracted automatically"))
            first = len(out_lines) + 1
            # emit line by line, picking up label markers
            for ln in text.split("\n"):
                out_lines.append(ln)
                mlab = re.search(r"// @([\w.\-]+)\s*$", ln)
                md = dict(meta)
                if mlab:
                    md["label"] = mlab.group(1)
                linemap[len(out_lines)] = md
            last = len(out_lines)
            if not meta.get("stub"):
                fn_ranges.append((first, last, meta["fn"], props, meta["src"]))
                for c in ex.clauses:
                    if c.kind in ("loopentry", "looppre", "loophead", "looptail", "loopreturns", "loopafter"):
                        continue
                    clauses_out.append(dict(fn=meta["fn"], kind=c.kind, label=c.label,
                                            loop=c.loop, text=c.text, props=props))
        else:
            kind = None
            for k in ("struct", "enum", "const", "type", "static", "implblock", "trait"):
                if k in a:
                    kind = k
            if kind is None:
                raise TemplateError(f"template line {ex.tmpl_line}: nothing to extract")
            if kind == "implblock":
                cands = [it for it in sf.items if it.kind == "impl" and impl_matches(it.header, a["implblock"])]
                if len(cands) != 1:
                    raise AnchorLost(f"{rel}: impl block {a['implblock']!r}: {len(cands)} matches")
                item = cands[0]
            else:
                item, _ = sf.find(kind=kind, name=a[kind])
            start = item.attr_start if a.get("attrs") == "keep" else item.start
            if a.get("requires_derive"):
                # the unit's doubles rely on derived traits of this type (structural `==` / hashing of a map key): each must
                # still be derived, or be implemented by hand in the same file (then the template holds that impl to a
                # contract through an `optional=1` extraction)
                attrs = text_of(sf.toks[item.attr_start:item.start])
                derived = set(x.strip() for mm in re.finditer(r"derive\s*\(([^)]*)\)", attrs) for x in mm.group(1).split(","))
                for tr in a["requires_derive"].replace(",", " ").split():
                    if tr in derived:
                        continue
                    hand = re.search(r"impl\s+(std::\w+::|core::\w+::)?" + re.escape(tr) + r"\s+for\s+" + re.escape(a[kind]) + r"\b", sf.text if hasattr(sf, "text") else text_of(sf.toks))
                    if not hand:
                        raise AnchorLost(f"{rel}: {kind} {a[kind]} no longer derives {tr} and no hand-written impl was found (the unit assumes it)")
                    rep.append(("R13", f"{a[kind]}: `{tr}` is implemented by hand instead of derived (see the optional extraction of the impl)"))
            toks = list(sf.toks[start:item.end])
            src_sha = hashlib.sha256(text_of(sf.toks[item.start:item.end]).encode()).hexdigest()
            toks = rw_strip_comments(toks, rep)
            toks = rw_vis(toks, rep)
            if a.get("attrs") != "keep" and kind in ("struct", "enum", "const", "type"):
                fs = next((t for t in toks if t.kind not in (WS, COMMENT)), None)
                if fs is not None and fs.kind == IDENT and fs.text in ("struct", "enum", "const", "type"):
                    toks = [T("raw", "pub ")] + toks
                    rep.append(("R13", "private item widened to pub"))
            if a.get("attrs") != "keep":
                rep.append(("R13", "outer attributes / doc comments dropped"))
            if "R1" in ex.rules:
                toks = rw_R1_logs(toks, rep)
                toks = rw_debug_assert(toks, rep)
            if "R8" in ex.rules:
                toks = rw_R8_closure_underscore(toks, rep)
            for (scope, old, new, expect) in ex.replaces:
                toks = rw_replace(toks, old, new, rep, what="replace", expect=expect)
            if a.get("pubfields") == "1":
                toks = _pub_fields(toks, rep)
            txt = text_of(toks)
            meta = dict(unit=unit, fn=f"{kind} {a[kind]}", src=f"{rel}:{sf.line_of(item.start)}",
                        props=props)
            emit(f"// ---- extracted {rel}:{sf.line_of(item.start)} :: {kind} {a[kind]} ----")
            emit(txt, meta)
            report.append(dict(item=f"{kind} {a[kind]}", src=f"{rel}:{sf.line_of(item.start)}-{sf.line_of(item.end-1)}",
                               sha256=src_sha, rewrites=[f"{r}: {d}" for r, d in rep]))
            continue
        report.append(dict(item=meta["fn"], src=meta["srcspan"], sha256=meta["sha256"],
                           rewrites=[f"{r}: {d}" for r, d in rep]))
    # std specs over `Vec<T, A>` name the allocator parameter: the (nightly) feature gate goes on the line of the first `use`
    # (no line is added, so the line map stays valid)
    if any("core::alloc::Allocator" in l for l in out_lines) and not any("feature(allocator_api)" in l for l in out_lines):
        for k_, l_ in enumerate(out_lines):
            if l_.startswith("use "):
                out_lines[k_] = "#![feature(allocator_api)] " + l_
                break
    text = "\n".join(out_lines) + "\n"
    # labels on template (preamble) lines
    for idx, ln in enumerate(out_lines, start=1):
        if idx in linemap and linemap[idx].get("label"):
            continue
        mlab = re.search(r"// @([\w.\-]+)\s*$", ln)
        if mlab:
            d = linemap.setdefault(idx, {})
            d["label"] = mlab.group(1)
    assumptions = scan_assumptions(out_lines, linemap)
    return Built(text, linemap, fn_ranges, report, clauses_out, assumptions)


def _pub_fields(toks, rep):
    """struct fields widened to `pub` (visibility only)."""
    out = []
    # find the struct body
    for i, t in enumerate(toks):
        if t.text == "{":
            body_lo = i; break
    else:
        return toks
    body_hi = match_close(toks, body_lo)
    out = list(toks[:body_lo + 1])
    i = body_lo + 1
    at_field_start = True
    while i < body_hi:
        t = toks[i]
        if t.kind in (WS, COMMENT):
            out.append(t); i += 1; continue
        if at_field_start:
            if t.text == "#":
                e = _skip_attr(toks, i)
                out += toks[i:e]; i = e; continue
            if t.kind == IDENT and t.text == "pub":
                # existing visibility: drop (pub / pub(crate)) and re-add plain pub
                j = _next_sig(toks, i)
                if toks[j].text == "(":
                    j = match_close(toks, j) + 1
                else:
                    j = i + 1
                out.append(T(IDENT, "pub"))
                i = j
                at_field_start = False
                continue
            out.append(T("raw", "pub "))
            at_field_start = False
            continue
        if t.kind == PUNCT and t.text in OPEN:
            e = match_close(toks, i)
            out += toks[i:e + 1]; i = e + 1; continue
        if t.kind == PUNCT and t.text == "<":
            # generic args: copy until matching '>' (no commas at depth 0 problem)
            depth = 0
            while i < body_hi:
                tt = toks[i]
                if tt.text == "<":
                    depth += 1
                elif tt.text == ">":
                    depth -= 1
                out.append(tt); i += 1
                if depth == 0:
                    break
            continue
        if t.kind == PUNCT and t.text == ",":
            at_field_start = True
        out.append(t); i += 1
    out += toks[body_hi:]
    rep.append(("R9", "struct fields widened to pub"))
    return out


def _build_fn(sf: SourceFile, item: Item, impl, ex: Extract, props, rep, unit, a):
    toks_all = sf.toks
    src_text = text_of(toks_all[item.start:item.end])
    sha = hashlib.sha256(src_text.encode()).hexdigest()
    fnname = a["fn"]
    qual = (f"{_impl_label(impl)}::{fnname}" if impl else fnname)
    if toks_all[item.hdr_end].text != "{":
        raise AnchorLost(f"{sf.rel}: fn {fnname} has no body")
    sig_toks = list(toks_all[item.start:item.hdr_end])
    body_toks = list(toks_all[item.hdr_end:item.end])   # includes braces

    is_block_ = "block_from" in a or "block_back" in a or "block_arm" in a or "field_init" in a or "block_closure" in a or "block_last" in a
    qual_full_ = qual + ("#" + (a.get("blockname") or "block") if is_block_ else "")
    forced_ = qual_full_ in FORCE_STUB and a.get("mode") != "stub"
    if is_block_ and not forced_ and ISOLATE_LOST_BLOCKS[0] and a.get("mode") != "stub":
        try:
            _extract_block(list(body_toks), a.get("block_from", ""), a.get("block_to"), a, [])
        except AnchorLost as e_:
            forced_ = True
            rep.append(("ISOLATED", f"block anchor lost ({e_}): emitted as a stub"))
    if forced_:
        # body outside reach on this tree: signature + contract only (external_body); nothing of the proof script applies
        import copy as _copy
        a = dict(a); a["mode"] = "stub"; a["from_unit"] = "this unit (body outside the verifier's reach on this tree; its own obligations are undecided)"
        ex = _copy.copy(ex)
        ex.inserts = []; ex.entry = []; ex.exit_ = []; ex.closures = []; ex.locals_ = []; ex.desugar_for = []; ex.methodrenames = []
        ex.replaces = [r_ for r_ in ex.replaces if r_[0] in ("sigreplace", "implreplace")]
        ex.clauses = [c_ for c_ in ex.clauses if c_.loop == -1 and c_.kind in ("requires", "ensures")]
        ex.rules = {r_ for r_ in ex.rules if r_ in ("R2",)}
        body_toks = [T(PUNCT, "{"), T(PUNCT, "}")]
        if is_block_:
            sig_toks = lex(a["wrap"])
            qual = qual_full_
        if not any(r_[0] == "ISOLATED" for r_ in rep):
            rep.append(("ISOLATED", "body does not type-check on this tree: emitted as a stub"))
        is_block_ = False

    # optional: inline block extraction (R0 anchors)
    if is_block_:
        body_toks = _extract_block(body_toks, a.get("block_from", ""), a.get("block_to"), a, rep)
        sig_toks = lex(a["wrap"])
        qual = qual + "#" + (a.get("blockname") or "block")

    # `fold "FROM" .. "TO" => "CALL"`: the statements from the one holding FROM to the one holding TO are code that is under
    # contract as an inline block of its own (same anchors); here they are replaced by a call of that block's wrapper, so
    # that the code AROUND them (the branch that chooses between them) can be put under contract without proving them twice
    for (ffrom, fto, ftext) in ex.folds:
        h1 = _find_seq_any(body_toks, pat_tokens(ffrom))
        if len(h1) != 1:
            raise AnchorLost(f"{qual}: fold from {ffrom!r}: {len(h1)} matches")
        fs_ = _stmt_start_before(body_toks, h1[0][0], 1)
        # TO may list alternatives `A ||| until:B`: the first one found after the start is taken; `until:` = the fold ends
        # BEFORE the statement holding the anchor (so the text of the folded block's own last statement may change)
        fe_ = None
        for alt in [x.strip() for x in fto.split("|||")]:
            until = alt.startswith("until:")
            at = alt[6:].strip() if until else alt
            h2 = [h for h in _find_seq_any(body_toks, pat_tokens(at)) if (h[0] > h1[0][1] if until else h[0] >= fs_)]
            if h2:
                st_ = _stmt_start_before(body_toks, h2[0][0], 1)
                fe_ = st_ if until else _stmt_end_from_start(body_toks, st_)
                break
        if fe_ is None:
            raise AnchorLost(f"{qual}: fold to {fto!r}: no match after the start")
        body_toks[fs_:fe_] = lex(ftext) + [T(WS, "\n")]
        rep.append(("R0", f"fold: statements {ffrom[:40]!r} .. {fto[:40]!r} (under contract as a block of their own) replaced by `{ftext[:60]}`"))
    sig_toks = rw_strip_comments(sig_toks, rep)
    sig_toks = rw_vis(sig_toks, rep)
    body_toks = rw_strip_comments(body_toks, rep)
    body_toks = rw_mut_bindings(body_toks, rep)
    body_toks = rw_R17_ctor_fn(body_toks, rep)
    sig_toks, body_toks = rw_R18_mut_self(sig_toks, body_toks, rep)
    if PATH_CANARIES[0] and a.get("mode") != "stub":
        body_toks = rw_path_canaries(body_toks, rep, qual, ex, unit_ret=("->" not in text_of(sig_toks)))
    rules = ex.rules
    if "R2" in rules:
        sig_toks = rw_R2_async(sig_toks, rep)
        body_toks = rw_R2_async(body_toks, rep)
    if "R1" in rules:
        body_toks = rw_R1_logs(body_toks, rep)
        body_toks = rw_debug_assert(body_toks, rep)
    if "R1c" in rules:
        body_toks = rw_R1c_format(body_toks, rep)
    body_toks = rw_R8_closure_underscore(body_toks, rep)   # R8 / R8b: always (pure renaming)
    # local aliases: a hint names a local of the function; if the local was renamed, the hints follow
    for (alias, patt, nth) in ex.locals_:
        pt = pat_tokens(patt)
        if "$" not in pt:
            raise TemplateError(f"{qual}: local {alias}: pattern has no `$`")
        hole = pt.index("$")
        sigs = [q for q, t in enumerate(body_toks) if t.kind not in (WS, COMMENT, "raw")]
        found = []
        for a0 in range(0, len(sigs) - len(pt) + 1):
            if all(b == hole or body_toks[sigs[a0 + b]].text == pt[b] for b in range(len(pt))) and body_toks[sigs[a0 + hole]].kind == IDENT:
                found.append(body_toks[sigs[a0 + hole]].text)
        if len(found) >= nth and found[nth - 1] != alias:
            actual = found[nth - 1]
            rx = re.compile(r"\b" + re.escape(alias) + r"\b")
            for c in ex.clauses:
                c.text = rx.sub(actual, c.text)
            for ins in ex.inserts + ex.entry + ex.exit_:
                ins[3] = rx.sub(actual, ins[3])
            for cl3 in ex.closures:
                cl3[2].text = rx.sub(actual, cl3[2].text)
            rep.append(("hint", f"local `{alias}` is now called `{actual}`: hints renamed accordingly"))
        elif len(found) < nth:
            rep.append(("LOST", f"local {alias}: binder pattern {patt!r} #{nth} not found"))
    if "R7a" in rules:
        body_toks = rw_R7_try_into_expect(body_toks, rep)

    # inserts are located on the *pre-replace* token stream? No: after R1/R2 but before
    # explicit replaces, so anchors are written against (almost) original text.
    # Order: loops located first (ordinals refer to source order, unaffected by replaces
    # that do not add loops).
    # 1. loop clauses + R10
    loop_clauses = {}
    for c in ex.clauses:
        if c.loop >= 0:
            loop_clauses.setdefault(c.loop, []).append(c)
    loops = find_loops(body_toks, 0, len(body_toks))
    maxloop = max(list(loop_clauses) + ex.desugar_for + [-1])
    if maxloop >= len(loops):
        raise AnchorLost(f"{qual}: loop ordinal {maxloop} not found (function has {len(loops)} loops)")
    # mark loop body braces with markers so later edits keep track
    for ordn, (kw, br) in enumerate(loops):
        nb = Tok(PUNCT, "{", -1, -1); nb.mark = ("brace", ordn); body_toks[br] = nb
        nk = Tok(IDENT, body_toks[kw].text, -1, -1); nk.mark = ("kw", ordn); body_toks[kw] = nk

    # R19: Verus' `for` does not support `continue`. In a `for` loop that is not desugared (R10), a statement of the loop
    # body of the form `if C { S; continue; }` (no else) followed by the rest R of the body is rewritten to
    # `if C { S } else { R }` -- the same control flow. Anything else with `continue` is left alone (Verus then rejects the
    # unit: undecided).
    for ordn, (kw0, br0) in enumerate(loops):
        if ordn in ex.desugar_for:
            continue
        kw = next(i for i, t in enumerate(body_toks) if getattr(t, "mark", None) == ("kw", ordn))
        if body_toks[kw].text != "for":
            continue
        n19 = 0
        while True:
            br = next(i for i, t in enumerate(body_toks) if getattr(t, "mark", None) == ("brace", ordn))
            cb = match_close(body_toks, br)
            hit = None
            k = br + 1
            while k < cb:
                tk = body_toks[k]
                if tk.kind == PUNCT and tk.text in OPEN:
                    k = match_close(body_toks, k) + 1; continue
                if tk.kind == IDENT and tk.text == "if" and body_toks[_prev_sig(body_toks, k)].text in (";", "{", "}"):
                    q = k + 1
                    while q < cb and not (body_toks[q].kind == PUNCT and body_toks[q].text == "{"):
                        if body_toks[q].kind == PUNCT and body_toks[q].text in OPEN:
                            q = match_close(body_toks, q) + 1; continue
                        q += 1
                    if q >= cb:
                        break
                    c1 = match_close(body_toks, q)
                    nx = _next_sig(body_toks, c1)
                    if body_toks[nx].kind == IDENT and body_toks[nx].text == "else":
                        # skip the whole if / else-if chain
                        while body_toks[nx].kind == IDENT and body_toks[nx].text == "else":
                            q2 = nx + 1
                            while not (body_toks[q2].kind == PUNCT and body_toks[q2].text == "{"):
                                if body_toks[q2].kind == PUNCT and body_toks[q2].text in OPEN:
                                    q2 = match_close(body_toks, q2) + 1; continue
                                q2 += 1
                            c1 = match_close(body_toks, q2)
                            nx = _next_sig(body_toks, c1)
                        k = c1 + 1; continue
                    last = _prev_sig(body_toks, c1)
                    semi = None
                    if body_toks[last].text == ";":
                        semi = last
                        last = _prev_sig(body_toks, last)
                    if body_toks[last].kind == IDENT and body_toks[last].text == "continue" and body_toks[_prev_sig(body_toks, last)].text in (";", "{", "}"):
                        hit = (last, semi, c1)
                        break
                    k = c1 + 1; continue
                k += 1
            if hit is None:
                break
            last, semi, c1 = hit
            body_toks[cb:cb] = [T(PUNCT, "}"), T(WS, "\n")]
            body_toks[c1 + 1:c1 + 1] = [T(WS, " "), T(IDENT, "else"), T(WS, " "), T(PUNCT, "{")]
            del body_toks[last:(semi if semi is not None else last) + 1]
            n19 += 1
        if n19:
            rep.append(("R19", f"loop {ordn}: `if C {{ ..; continue; }} R` -> `if C {{ .. }} else {{ R }}` x{n19} (Verus' `for` has no `continue`)"))

    if ex.closures:
        body_toks = rw_closure_specs(body_toks, [(k, rd, c.text) for (k, rd, c) in ex.closures], rep, qual)

    # 2. inserts (anchored on current tokens)
    for (where, anchor, k, text) in ex.inserts:
        HINT_SITES.append((qual, where, anchor, k))
        # every line of the hint carries the index of its site, so that a failing hint line can be traced back (tools/run.py
        # re-verifies the unit without a hint that fails on the tree under test: a failed hint is otherwise ASSUMED by the
        # verifier for the rest of the function and can hide the failure of the code's own obligation)
        def _site_mark(ln_, n_=len(HINT_SITES) - 1):
            if not ln_.strip():
                return ln_
            k_ = ln_.rfind("// @")          # a property label stays the last thing on its line
            return (ln_[:k_] + f"/*@site:{n_}*/ " + ln_[k_:]) if k_ >= 0 else (ln_ + f" /*@site:{n_}*/")
        text = "\n".join(_site_mark(ln_) for ln_ in text.split("\n"))
        if ABLATE_HINT[0] is not None and (ABLATE_HINT[0] == (qual, anchor, k) or (isinstance(ABLATE_HINT[0], (set, frozenset)) and (qual, anchor, k) in ABLATE_HINT[0])):
            # tools/hint_deps.py: build the unit as if this hint could not be placed (to learn which clauses need it)
            rep.append(("ABLATED", f"proof-hint anchor {anchor!r} #{k}: left out on request"))
            continue
        pat = pat_tokens(anchor)
        hits = _find_seq_any(body_toks, pat)
        if len(hits) == 0 and k == 1 and len(pat) >= 4:
            fz = _find_seq_fuzzy(body_toks, pat)
            if len(fz) == 1:
                hits = fz
                rep.append(("hint", f"proof-hint anchor {anchor!r}: exact text gone, attached to the unique statement that differs only in renamed identifiers"))
        if len(hits) < k:
            # the anchor text is gone: same program point through its recorded context?
            ctx = _hint_ctx().get(unit, {}).get(qual, {}).get(f"{where}|{anchor}#{k}") if where in ("before", "after") else None
            placed = False
            if ctx:
                sig = [q for q, t in enumerate(body_toks) if t.kind not in (WS, COMMENT, "raw")]
                want = ctx.get("prev") if where == "before" else ctx.get("next")
                if want and len(want) >= 3:
                    occ = [j for j in range(0, len(sig) - len(want) + 1) if all(body_toks[sig[j + q]].text == want[q] for q in range(len(want)))]
                    if len(occ) == 1:
                        if where == "before":
                            pos = sig[occ[0] + len(want) - 1] + 1
                        else:
                            pos = sig[occ[0]]
                        body_toks[pos:pos] = [T("raw", "\n" + text + "\n")]
                        rep.append(("hint", f"proof-hint anchor {anchor!r} #{k}: anchor text gone, hint placed at the same program point (found through the unchanged code {'in front of' if where == 'before' else 'behind'} it)"))
                        placed = True
            if not placed:
                rep.append(("LOST", f"proof-hint anchor {anchor!r} #{k} not found ({len(hits)} hits): hint dropped"))
            continue
        a0, b0 = hits[k - 1]
        if where in ("after_arm", "before_arm"):
            # the anchor lies in a match arm `PAT => EXPR,` whose body is a bare expression: wrap it as
            # `{ EXPR; <text> }` (EXPR has type () in all uses)
            arrow = None
            for q2 in range(a0 + 1, b0 + 1):
                if body_toks[q2].kind == PUNCT and body_toks[q2].text == ">" and body_toks[q2 - 1].text == "=":
                    arrow = q2; break
            q = a0
            depth = 0
            while arrow is None and q >= 1:
                tq = body_toks[q]
                if tq.kind == PUNCT and tq.text in CLOSE:
                    depth += 1
                elif tq.kind == PUNCT and tq.text in OPEN:
                    if depth == 0:
                        break
                    depth -= 1
                elif depth == 0 and tq.kind == PUNCT and tq.text == ">" and body_toks[q - 1].text == "=":
                    arrow = q; break
                q -= 1
            if arrow is None:
                rep.append(("LOST", f"after_arm anchor {anchor!r}: no `=>` found: hint dropped"))
                continue
            es = _next_sig(body_toks, arrow)
            e = es
            if body_toks[es].kind == PUNCT and body_toks[es].text == "{":
                e = match_close(body_toks, es) + 1     # a block arm ends with its block (the comma is optional)
            else:
                while e < len(body_toks):
                    te = body_toks[e]
                    if te.kind == PUNCT and te.text in OPEN:
                        e = match_close(body_toks, e) + 1; continue
                    if te.kind == PUNCT and (te.text == "," or te.text in CLOSE):
                        break
                    e += 1
            if where == "after_arm":
                body_toks[e:e] = [T("raw", ";\n" + text + "\n}")]
                body_toks[es:es] = [T("raw", "{ ")]
            else:
                body_toks[e:e] = [T("raw", " }")]
                body_toks[es:es] = [T("raw", "{\n" + text + "\n")]
            continue
        if where == "after":
            pos = _stmt_end_from_start(body_toks, _stmt_start_before(body_toks, a0, 1))
        else:
            pos = _stmt_start_before(body_toks, a0, 1)
        if where == "after":
            pv = _prev_sig(body_toks, pos)
            if pv >= 0 and body_toks[pv].text not in (";", "}", "{"):
                text = "; " + text      # the statement was a block's tail expression of type ()
        sigb_ = [t.text for t in body_toks[:pos] if t.kind not in (WS, COMMENT, "raw")][-CTX_TOKENS:]
        siga_ = [t.text for t in body_toks[pos:] if t.kind not in (WS, COMMENT, "raw")][:CTX_TOKENS]
        HINT_CTX_OUT[(qual, where, anchor, k)] = dict(prev=sigb_, next=siga_)
        body_toks[pos:pos] = [T("raw", "\n" + text + "\n")]

    if ex.exit_:
        pv = _prev_sig(body_toks, len(body_toks) - 1)
        # a stray `;` after a block-like last statement is an empty statement; a tail expression of type () needs it
        semi = "; " if pv >= 0 and body_toks[pv].text not in (";", "{") else ""
        body_toks[len(body_toks) - 1:len(body_toks) - 1] = [T("raw", "\n" + semi + "\n".join(e[3] for e in ex.exit_) + "\n")]
    if ex.entry:
        body_toks[1:1] = [T("raw", "\n" + "\n".join(e[3] for e in ex.entry) + "\n")]

    # 2a. R7 method renaming: `.old(...)` -> `.new(...)` wherever it occurs in the body
    for (oldm, newm) in ex.methodrenames:
        n_rw = 0
        for q in range(1, len(body_toks) - 1):
            tq = body_toks[q]
            if tq.kind == IDENT and tq.text == oldm:
                pv = _prev_sig(body_toks, q); nx = _next_sig(body_toks, q)
                if pv >= 0 and body_toks[pv].text == "." and nx < len(body_toks) and body_toks[nx].text == "(":
                    nt = Tok(IDENT, newm, -1, -1)
                    body_toks[q] = nt; n_rw += 1
        if n_rw:
            rep.append(("R7", f"method `.{oldm}()` -> `.{newm}()` x{n_rw}"))

    # 2b. R7 index rewriting: `recv[expr]` in read position -> `recv.method(expr)` (Index impls cannot carry a precondition)
    for (recv, method) in ex.indexcalls:
        pat = pat_tokens(recv)
        n_rw = 0; n_mut = 0
        while True:
            hits = _find_seq_any(body_toks, pat)
            done = True
            for (a0, b0) in hits:
                nx = _next_sig(body_toks, b0)
                if nx < len(body_toks) and body_toks[nx].kind == PUNCT and body_toks[nx].text == "[":
                    cl = match_close(body_toks, nx)
                    after = _next_sig(body_toks, cl)
                    # not an assignment target, not a range slice
                    if after < len(body_toks) and body_toks[after].text == "=" and body_toks[_next_sig(body_toks, after)].text != "=":
                        continue
                    inner = text_of(body_toks[nx + 1:cl])
                    if ".." in inner:
                        continue
                    # `&mut recv[i]` -> `recv.<method>_mut(i)` (IndexMut cannot carry a precondition either)
                    p1 = _prev_sig(body_toks, a0); p2 = _prev_sig(body_toks, p1) if p1 >= 0 else -1
                    if p1 >= 0 and p2 >= 0 and body_toks[p1].text == "mut" and body_toks[p2].text == "&":
                        body_toks[nx:cl + 1] = [T("raw", f".{method}_mut({inner})")]
                        body_toks[p2:a0] = []
                        n_mut += 1; n_rw += 1; done = False
                        break
                    body_toks[nx:cl + 1] = [T("raw", f".{method}({inner})")]
                    n_rw += 1; done = False
                    break
            if done:
                break
        if n_rw:
            rep.append(("R7", f"`{recv}[i]` -> `{recv}.{method}(i)` x{n_rw}" + (f" (of which `&mut {recv}[i]` -> `{recv}.{method}_mut(i)` x{n_mut})" if n_mut else "")))

    # 3. explicit replaces
    for (scope, old, new, expect) in ex.replaces:
        if scope == "sigreplace":
            sig_toks = rw_replace(sig_toks, old, new, rep, what="sigreplace", expect=expect)
        elif scope == "replace":
            body_toks = _rw_replace_any(body_toks, old, new, rep, expect)
    # 3b. calls of ghost-extended methods that the replaces did not reach
    body_toks = rw_callpads(body_toks, rep)

    # 4. R10 desugaring + loop clause splice
    for ordn in sorted(set(list(loop_clauses) + ex.desugar_for), reverse=True):
        kw = next(i for i, t in enumerate(body_toks) if getattr(t, "mark", None) == ("kw", ordn))
        br = next(i for i, t in enumerate(body_toks) if getattr(t, "mark", None) == ("brace", ordn))
        cl = loop_clauses.get(ordn, [])
        spec = _render_loop_clauses([c for c in cl if c.kind not in ("loopentry", "looppre", "loophead", "looptail", "loopreturns", "loopafter")])
        lafter = "\n".join(c.text for c in cl if c.kind == "loopafter")
        if lafter:
            # proof text right after the loop statement (structural anchor: survives any edit of the code that follows)
            cb = match_close(body_toks, br)
            body_toks[cb + 1:cb + 1] = [T("raw", "\n" + lafter + "\n")]
        lrets = "\n".join(c.text for c in cl if c.kind == "loopreturns")
        if lrets:
            # proof text before every `return` inside the loop body: `return E` -> `{ HINT return E }` (structural anchor)
            cb = match_close(body_toks, br)
            rets = [k for k in range(br + 1, cb) if body_toks[k].kind == IDENT and body_toks[k].text == "return"]
            for r in reversed(rets):
                k = r + 1
                lim = match_close(body_toks, br)
                while k < lim:
                    tk = body_toks[k]
                    if tk.kind == PUNCT and tk.text in OPEN:
                        k = match_close(body_toks, k) + 1; continue
                    if tk.kind == PUNCT and tk.text in (";", ",", ")", "]", "}"):
                        break
                    k += 1
                endpos = k + 1 if body_toks[k].text == ";" else k
                body_toks[endpos:endpos] = [T("raw", " }")]
                body_toks[r:r] = [T("raw", "{ " + lrets + " ")]
            rep.append(("hint", f"loop {ordn}: hint placed before {len(rets)} return statement(s)"))
        ltail = "\n".join(c.text for c in cl if c.kind == "looptail")
        if ltail:
            # proof text at the very end of the loop body (before its closing brace)
            cb = match_close(body_toks, br)
            body_toks[cb:cb] = [T("raw", "\n" + ltail + "\n")]
        lhead = "\n".join(c.text for c in cl if c.kind == "loophead")
        lentry = "\n".join(c.text for c in cl if c.kind == "loopentry")
        lpre = "\n".join(c.text for c in cl if c.kind == "looppre")
        if ordn in ex.desugar_for:
            if body_toks[kw].text != "for":
                raise AnchorLost(f"{qual}: loop {ordn} is not a `for` (R10)")
            k = kw + 1
            in_idx = None
            while k < br:
                tk = body_toks[k]
                if tk.kind == PUNCT and tk.text in OPEN:
                    k = match_close(body_toks, k) + 1; continue
                if tk.kind == IDENT and tk.text == "in":
                    in_idx = k; break
                k += 1
            if in_idx is None:
                raise AnchorLost(f"{qual}: cannot parse `for` header of loop {ordn}")
            pat = text_of(body_toks[kw + 1:in_idx]).strip()
            expr = text_of(body_toks[in_idx + 1:br]).strip()
            it = f"verif_it{ordn}"
            hdr = f"let mut {it} = verif_into_iter({expr});\n{lpre}\nloop\n{spec}"
            first = f"{{ {lhead}\nlet {pat} = match {it}.next() {{ Some(verif_x) => verif_x, None => break }};\n{lentry}\n"
            body_toks[br] = T("raw", first)
            body_toks[kw:br] = [T("raw", hdr)]
            rep.append(("R10", f"`for {pat} in {expr}` desugared to loop/match (loop {ordn})"))
        else:
            if lentry or lhead:
                body_toks[br + 1:br + 1] = [T("raw", "\n" + lhead + "\n" + lentry + "\n")]
            if spec:
                body_toks[br:br] = [T("raw", "\n" + spec)]

    # 5. signature: named return + contracts
    sig_text = text_of(sig_toks).rstrip()
    if ex.rename:
        sig_text = re.sub(r"\bfn\s+" + re.escape(fnname) + r"\b", "fn " + ex.rename, sig_text, count=1)
        rep.append(("R0", f"fn renamed to {ex.rename}"))
    where_txt = ""
    wpos = _top_level_where(sig_toks)
    if wpos is not None and "block_from" not in a and "block_back" not in a and "block_arm" not in a and "field_init" not in a and "block_closure" not in a and "block_last" not in a:
        where_txt = text_of(sig_toks[wpos:]).strip()
        sig_text = text_of(sig_toks[:wpos]).rstrip()
    if ex.ret:
        sig_text = _name_return(sig_text, ex.ret, qual)
    # R16: a contract written for `&mut self` applied to a function that (now) takes `&self`: old(self) and final(self)
    # both denote `self` (the frame clauses become trivial, the rest keeps its meaning)
    self_is_shared = re.search(r"\(\s*&\s*(\'\w+\s+)?self\b", sig_text) is not None
    if self_is_shared and any(re.search(r"\b(old|final)\s*\(\s*self\s*\)", c.text) for c in ex.clauses):
        for c in ex.clauses:
            c.text = re.sub(r"\b(old|final)\s*\(\s*self\s*\)", "self", c.text)
        rep.append(("R16", "contract written for `&mut self` applied to a `&self` function: old(self)/final(self) -> self"))
    fn_clauses = [c for c in ex.clauses if c.loop == -1]
    stub = a.get("mode") == "stub"
    if stub:
        # an importing unit sees the derived facts as part of the contract (they are proved from it in the home unit)
        fn_clauses = fn_clauses + [Clause("ensures", c.label, c.text) for c in ex.clauses if c.kind == "derive"]
    spec = _render_fn_clauses(fn_clauses)
    hdr = sig_text + ("\n    " + where_txt if where_txt else "")
    body_text = text_of(body_toks)
    src_line = sf.line_of(item.start)
    if stub:
        body_text = "{ unimplemented!() }"
        rep.append(("STUB", f"contract imported from unit {a.get('from_unit')} (proved there, assumed here); body not included"))
    lines = [f"// ---- {'stub (contract of' if stub else 'extracted'} {sf.rel}:{src_line} :: {qual}{')' if stub else ''} ----"]
    if impl is not None:
        ih = text_of(toks_all[impl.start:impl.hdr_end]).strip()
        ih = re.sub(r"\s+", " ", ih)
        for (scope, old, new, expect) in ex.replaces:
            if scope == "implreplace":
                ih2 = ih.replace(old, new)
                if ih2 == ih:
                    raise AnchorLost(f"{qual}: implreplace text not found: {old!r}")
                rep.append(("implreplace", f"{old!r} => {new!r}"))
                ih = ih2
        if ih.strip() == "":
            impl = None     # emitted as a free function
        else:
            lines.append(ih + " {")
    if stub:
        lines.append("#[verifier::external_body]")
    lines.append(hdr)
    if spec:
        lines.append(spec)
    lines.append(body_text)
    derives = [c for c in ex.clauses if c.kind == "derive"]
    if derives and not stub:
        lines.append(_render_derive(sig_text, where_txt, ex, fn_clauses, derives, fnname, qual))
    if impl is not None:
        lines.append("}")
    meta = dict(unit=unit, fn=qual, src=f"{sf.rel}:{src_line}",
                srcspan=f"{sf.rel}:{src_line}-{sf.line_of(item.end - 1)}", sha256=sha, props=props, stub=stub)
    return "\n".join(lines), meta


def _impl_label(impl: Item):
    tr, ty = _impl_type_name(impl.header)
    return f"<{ty} as {tr}>" if tr else ty


def _find_seq_any(toks, pat):
    sigs = [i for i, t in enumerate(toks) if t.kind not in (WS, COMMENT, "raw")]
    m = len(pat)
    res = []
    for a in range(0, len(sigs) - m + 1):
        if all(toks[sigs[a + b]].text == pat[b] for b in range(m)):
            res.append((sigs[a], sigs[a + m - 1]))
    return res


_KW = {"as", "break", "const", "continue", "crate", "else", "enum", "false", "fn", "for", "if", "impl", "in", "let", "loop",
       "match", "mod", "move", "mut", "pub", "ref", "return", "self", "Self", "static", "struct", "super", "trait", "true",
       "type", "unsafe", "use", "where", "while", "async", "await", "dyn"}


def _find_seq_fuzzy(toks, pat, max_diff=2):
    """windows of the same length as `pat` that differ from it only in at most `max_diff` plain identifiers
    (a renamed local): used for proof-hint anchors when the exact text is gone"""
    sigs = [i for i, t in enumerate(toks) if t.kind not in (WS, COMMENT, "raw")]
    m = len(pat)
    res = []
    ident = re.compile(r"^[A-Za-z_]\w*$")
    for a in range(0, len(sigs) - m + 1):
        diff = 0
        ok = True
        for b in range(m):
            tt = toks[sigs[a + b]].text
            if tt == pat[b]:
                continue
            if ident.match(tt) and ident.match(pat[b]) and tt not in _KW and pat[b] not in _KW and b > 0:
                diff += 1
                if diff > max_diff:
                    ok = False; break
            else:
                ok = False; break
        if ok and diff > 0:
            res.append((sigs[a], sigs[a + m - 1]))
    return res


def _rw_replace_holes(toks, old, new, rep, expect):
    """`replace` whose pattern has identifier holes `$1`, `$2`, ...: each hole matches one plain identifier (the same hole the
    same identifier) and is substituted into the replacement text -- so a rewrite of a std expression survives the renaming of
    the locals it mentions"""
    pat = pat_tokens(re.sub(r"\$(\d)", r"VERIFHOLE\1", old))
    sigs = [i for i, t in enumerate(toks) if t.kind not in (WS, COMMENT, "raw")]
    m = len(pat)
    ident = re.compile(r"^[A-Za-z_]\w*$")
    hits = []
    for a in range(0, len(sigs) - m + 1):
        bind = {}
        ok = True
        for b in range(m):
            tt = toks[sigs[a + b]].text
            if pat[b].startswith("VERIFHOLE"):
                if not ident.match(tt) or tt in _KW or bind.setdefault(pat[b], tt) != tt:
                    ok = False; break
            elif tt != pat[b]:
                ok = False; break
        if ok:
            hits.append((sigs[a], sigs[a + m - 1], bind))
    if not hits:
        if expect != 0:
            rep.append(("LOST", f"replace: text not found (nothing rewritten): {old!r}"))
        return toks
    out = list(toks)
    last_start = None
    for (a0, b0, bind) in reversed(hits):
        if last_start is not None and b0 >= last_start:
            continue
        if any(getattr(t, "mark", None) for t in out[a0:b0 + 1]):
            raise TemplateError(f"replace {old!r} spans a loop header; not supported")
        txt = re.sub(r"\$(\d)", lambda mm: bind.get("VERIFHOLE" + mm.group(1), mm.group(0)), new)
        out[a0:b0 + 1] = [T("raw", txt)]
        last_start = a0
    rep.append(("replace", f"{old!r} => {new!r} x{len(hits)} (holes: {sorted(set(v for h in hits for v in h[2].values()))})"))
    return out


def _rw_replace_any(toks, old, new, rep, expect):
    if re.search(r"\$\d", old):
        return _rw_replace_holes(toks, old, new, rep, expect)
    pat = pat_tokens(old)
    hits = _find_seq_any(toks, pat)
    if not hits:
        if expect == 0:
            return toks      # `replace?`: the alternative shape is not present
        # the construct that needed rewriting no longer occurs: nothing to rewrite
        rep.append(("LOST", f"replace: text not found (nothing rewritten): {old!r}"))
        return toks
    out = list(toks)
    last_start = None
    if expect is not None and expect < 0:
        if len(hits) < -expect:
            rep.append(("LOST", f"replace: occurrence #{-expect} not found (nothing rewritten): {old!r}"))
            return toks
        hits = [hits[-expect - 1]]
    for (a0, b0) in reversed(hits):
        if last_start is not None and b0 >= last_start:
            continue
        # keep loop markers that fall inside the replaced range? refuse instead
        if any(getattr(t, "mark", None) for t in out[a0:b0 + 1]):
            raise TemplateError(f"replace {old!r} spans a loop header; not supported")
        out[a0:b0 + 1] = [T("raw", new)]
        last_start = a0
    rep.append(("replace", f"{old!r} => {new!r} x{len(hits)}"))
    return out


def _top_level_where(sig_toks):
    depth = 0
    for i, t in enumerate(sig_toks):
        if t.kind == PUNCT and t.text in ("(", "[", "<"):
            depth += 1
        elif t.kind == PUNCT and t.text in (")", "]"):
            depth -= 1
        elif t.kind == PUNCT and t.text == ">":
            # '->' is not a closing angle
            if i > 0 and sig_toks[i - 1].text == "-":
                continue
            depth -= 1
        elif depth == 0 and t.kind == IDENT and t.text == "where":
            return i
    return None


def _name_return(sig_text, name, qual):
    toks = lex(sig_text)
    # find '->' at depth 0 after the parameter list
    depth = 0
    for i, t in enumerate(toks):
        if t.kind == PUNCT and t.text in ("(", "["):
            depth += 1
        elif t.kind == PUNCT and t.text in (")", "]"):
            depth -= 1
        elif depth == 0 and t.kind == PUNCT and t.text == "-" and i + 1 < len(toks) and toks[i + 1].text == ">":
            before = text_of(toks[:i])
            ty = text_of(toks[i + 2:]).strip()
            return f"{before}-> ({name}: {ty})"
    raise TemplateError(f"{qual}: `ret:` given but the function has no return type")


def _split_params(ptxt):
    toks = lex(ptxt)
    parts, cur, depth = [], [], 0
    for t in toks:
        if t.kind == PUNCT and t.text in ("(", "[", "<", "{"):
            depth += 1
        elif t.kind == PUNCT and t.text in (")", "]", ">", "}"):
            # `->` inside Fn(..) -> T: the `>` of `->` is not a closing bracket
            if not (t.text == ">" and cur and cur[-1].text == "-"):
                depth -= 1
        if t.kind == PUNCT and t.text == "," and depth == 0:
            parts.append(text_of(cur).strip()); cur = []
        else:
            cur.append(t)
    if text_of(cur).strip():
        parts.append(text_of(cur).strip())
    return parts


def _subst_self(txt, selfmode):
    """contract text -> lemma text: old(self) -> pre, final(self) -> post, (for `&self` functions) self -> pre"""
    txt = re.sub(r"\bold\s*\(\s*self\s*\)", "pre", txt)
    txt = re.sub(r"\bfinal\s*\(\s*self\s*\)", "post", txt)
    if selfmode == "ref":
        txt = re.sub(r"(?<![\w.])self\b", "pre", txt)
    return txt


def _render_derive(sig_text, where_txt, ex, fn_clauses, derives, fnname, qual):
    """the `derive` lemma: the property as a consequence of the function's (proved) contract alone"""
    m = re.search(r"\bfn\s+\w+\s*(<[^(]*>)?\s*\(", sig_text)
    if not m:
        raise TemplateError(f"{qual}: derive: cannot parse the signature")
    generics = m.group(1) or ""
    toks = lex(sig_text[m.end() - 1:])
    close = match_close(toks, 0)
    ptxt = text_of(toks[1:close])
    rest = text_of(toks[close + 1:]).strip()
    params = []
    selfmode = None
    for prm in _split_params(ptxt):
        pz = re.sub(r"\s+", " ", prm)
        if re.match(r"^&\s*(\'\w+\s+)?mut self$", pz):
            selfmode = "mut"; params += ["pre: &Self", "post: &Self"]
        elif re.match(r"^&\s*(\'\w+\s+)?self$", pz):
            selfmode = "ref"; params += ["pre: &Self"]
        elif pz in ("self", "mut self"):
            selfmode = "ref"; params += ["pre: Self"]
        else:
            params.append(re.sub(r"^mut\s+", "", prm))
    mret = re.match(r"^->\s*\((\w+)\s*:\s*(.*)\)$", rest, re.S)
    if mret:
        params.append(f"{mret.group(1)}: {mret.group(2).strip()}")
    elif rest.startswith("->"):
        raise TemplateError(f"{qual}: derive needs `ret:` to name the result")
    out = [f"/// derived from the contract of `{fnname}` above (its requires and ensures are the hypotheses; nothing of the body is used)",
           f"pub proof fn verif_derive_{fnname}{generics}({', '.join(params)})"]
    if where_txt:
        out.append("    " + where_txt)
    hyps = [c for c in fn_clauses if c.kind in ("requires", "ensures")]
    if hyps:
        out.append("    requires")
        for c in hyps:
            c2 = Clause(c.kind, "", _subst_self(c.text, selfmode))
            out += _clause_lines(c2)
    out.append("    ensures")
    for c in derives:
        c2 = Clause("ensures", c.label, _subst_self(c.text, selfmode))
        out += _clause_lines(c2)
    out.append("{")
    out += [e[3] for e in ex.derive_proof]
    out.append("}")
    return "\n".join(out)


def _render_fn_clauses(clauses):
    if not clauses:
        return ""
    order = ["requires", "ensures", "returns", "decreases"]
    lines = []
    for kind in order:
        cs = [c for c in clauses if c.kind == kind]
        if not cs:
            continue
        lines.append(f"    {kind}")
        for c in cs:
            lines += _clause_lines(c)
    return "\n".join(lines)


def _render_loop_clauses(clauses):
    if not clauses:
        return ""
    order = ["invariant_except_break", "invariant", "ensures", "decreases"]
    lines = []
    for kind in order:
        cs = [c for c in clauses if c.kind == kind]
        if not cs:
            continue
        lines.append(f"        {kind}")
        for c in cs:
            lines += _clause_lines(c, indent="            ")
    return "\n".join(lines) + "\n"


def _clause_lines(c, indent="        "):
    txt = c.text.strip()
    if not txt.endswith(","):
        txt += ","
    parts = txt.split("\n")
    lab = f" // @{c.label}" if c.label else ""
    # the label goes on every line of the clause so that any span inside it maps back
    return [f"{indent}{p.rstrip()}{lab}" for p in parts]


def _extract_block(body_toks, frm, to, a, rep):
    if a.get("field_init"):
        # the initializer expression of field `name:` in a struct literal of the function body (`name: EXPR,`)
        name = a["field_init"]
        hits = []
        for i, t in enumerate(body_toks):
            if t.kind == IDENT and t.text == name:
                nx = _next_sig(body_toks, i); pv = _prev_sig(body_toks, i)
                if nx < len(body_toks) and body_toks[nx].text == ":" and body_toks[_next_sig(body_toks, nx)].text != ":" \
                        and pv >= 0 and body_toks[pv].text in (",", "{"):
                    hits.append(nx)
        nth = int(a.get("field_nth", "0"))
        if nth:
            if len(hits) < nth:
                raise AnchorLost(f"field_init {name!r} #{nth}: only {len(hits)} struct-literal fields of that name")
            hits = [hits[nth - 1]]
        if len(hits) != 1:
            raise AnchorLost(f"field_init {name!r}: {len(hits)} struct-literal fields of that name")
        k = hits[0] + 1
        st = k
        while k < len(body_toks):
            tk = body_toks[k]
            if tk.kind == PUNCT and tk.text in OPEN:
                k = match_close(body_toks, k) + 1; continue
            if tk.kind == PUNCT and tk.text in (",", "}"):
                break
            k += 1
        rep.append(("R0", f"field initializer `{name}: ...` wrapped as `{a['wrap']}`"))
        return [T(PUNCT, "{"), T(WS, "\n")] + body_toks[st:k] + [T(WS, "\n"), T(PUNCT, "}")]
    if a.get("block_arm"):
        # the whole body `{ ... }` of the match arm whose pattern text is given (`PATTERN =>`): whatever statements a
        # change adds to the arm are inside the block
        ap = pat_tokens(a["block_arm"])
        ah = _find_seq_any(body_toks, ap)
        if len(ah) > 1:
            # the pattern text also occurs elsewhere (e.g. inside a `matches!(..)`): an ARM sits directly inside the braces
            # of its `match`, right after `{`, `,` or the `}` of the previous arm
            def _arm_pos(h):
                pv = _prev_sig(body_toks, h[0])
                if pv < 0 or body_toks[pv].text not in ("{", ",", "}"):
                    return False
                d_ = 0
                for q_ in range(h[0] - 1, -1, -1):
                    tq_ = body_toks[q_]
                    if tq_.kind == PUNCT and tq_.text in CLOSE:
                        d_ += 1
                    elif tq_.kind == PUNCT and tq_.text in OPEN:
                        if d_ == 0:
                            return tq_.text == "{"
                        d_ -= 1
                return False
            arms_ = [h for h in ah if _arm_pos(h)]
            if len(arms_) == 1:
                ah = arms_
        if len(ah) != 1:
            raise AnchorLost(f"block_arm {a['block_arm']!r}: {len(ah)} matches")
        endp = ah[0][1]
        if ap[-2:] != ["=", ">"] and ap[-1] != "=>":
            # the anchor is the head of the pattern only (`Enum::Variant`): the arm is the one whose `=>` follows at depth 0
            # (bindings inside the pattern may be written in any way)
            k = endp + 1
            while k < len(body_toks):
                tk = body_toks[k]
                if tk.kind == PUNCT and tk.text in OPEN:
                    k = match_close(body_toks, k) + 1; continue
                if tk.kind == PUNCT and tk.text == "=>":
                    break
                if tk.kind == PUNCT and tk.text == "=" and k + 1 < len(body_toks) and body_toks[k + 1].text == ">":
                    k += 1; break
                if tk.kind == PUNCT and tk.text in (";", "}"):
                    raise AnchorLost(f"block_arm {a['block_arm']!r}: no `=>` follows the pattern head")
                k += 1
            endp = k
        ob = _next_sig(body_toks, endp)
        if ob >= len(body_toks):
            raise AnchorLost(f"block_arm {a['block_arm']!r}: no arm body")
        if body_toks[ob].text != "{":
            # an expression arm `PAT => EXPR,`: the body is the expression up to the comma (or the closing brace of the match)
            k = ob
            while k < len(body_toks):
                tk = body_toks[k]
                if tk.kind == PUNCT and tk.text in OPEN:
                    k = match_close(body_toks, k) + 1; continue
                if tk.kind == PUNCT and (tk.text == "," or tk.text in CLOSE):
                    break
                k += 1
            rep.append(("R0", f"inline block: expression body of the match arm `{a['block_arm'][:60]}` wrapped as `{a['wrap']}`"))
            arm_e = list(body_toks[ob:k])
            return [T(PUNCT, "{"), T(WS, "\n")] + arm_e + [T(PUNCT, ";"), T(WS, "\n"), T(PUNCT, "}")]
        cb = match_close(body_toks, ob)
        rep.append(("R0", f"inline block: body of the match arm `{a['block_arm'][:60]}` wrapped as `{a['wrap']}`"))
        tail = a.get("tail", "")
        arm = list(body_toks[ob + 1:cb])
        if a.get("arm_of_loop"):
            # the arm is the body of a `loop { select! { .. } }` iteration: `continue` (outside any loop of the arm itself) ends
            # the processing of this event, i.e. returns from the wrapper
            inner = find_loops(arm, 0, len(arm))
            spans = [(br, match_close(arm, br)) for (_kw, br) in inner]
            n_ = 0
            for q, t in enumerate(arm):
                if t.kind == IDENT and t.text == "continue" and not any(lo_ < q < hi_ for lo_, hi_ in spans):
                    arm[q] = T(IDENT, "return"); n_ += 1
            if n_:
                rep.append(("R0", f"{n_} `continue` of the enclosing event loop -> `return` from the wrapper"))
        return [T(PUNCT, "{"), T(WS, "\n")] + arm + [T("raw", "\n" + tail + "\n"), T(PUNCT, "}")]
    if a.get("block_last"):
        # the last statement of the function body (whatever its text): e.g. the final `if .. else ..` of a function whose
        # head is not within reach
        close = len(body_toks) - 1
        while close >= 0 and body_toks[close].text != "}":
            close -= 1
        # split the body into top-level statements (forward scan at depth 0)
        opn = next(q for q, t in enumerate(body_toks) if t.text == "{")
        starts = []; q = _next_sig(body_toks, opn); cur = q
        while q < close:
            tk = body_toks[q]
            if tk.kind == PUNCT and tk.text in OPEN:
                e_ = match_close(body_toks, q)
                if tk.text == "{":
                    nx = _next_sig(body_toks, e_)
                    if nx >= close or not (body_toks[nx].text in (".", "?", ")", ",", ";") or (body_toks[nx].kind == IDENT and body_toks[nx].text in ("else", "as"))):
                        starts.append(cur); q = _next_sig(body_toks, e_); cur = q; continue
                q = e_ + 1; continue
            if tk.kind == PUNCT and tk.text == ";":
                starts.append(cur); q = _next_sig(body_toks, q); cur = q; continue
            q += 1
        if cur < close and any(t.kind not in (WS, COMMENT) for t in body_toks[cur:close]):
            starts.append(cur)
        if not starts:
            raise AnchorLost("block_last: empty function body")
        st = starts[-1]
        rep.append(("R0", f"inline block: the last statement of the body wrapped as `{a['wrap']}`"))
        tail = a.get("tail", "")
        return [T(PUNCT, "{"), T(WS, "\n")] + body_toks[st:close] + [T("raw", "\n" + tail + "\n"), T(PUNCT, "}")]
    if a.get("block_closure"):
        # the whole body `{ ... }` of the closure whose header text is given (`CALL(|params|`): independent of the text of the
        # statements inside
        cp = pat_tokens(a["block_closure"])
        ch = _find_seq_any(body_toks, cp)
        if len(ch) != 1:
            raise AnchorLost(f"block_closure {a['block_closure']!r}: {len(ch)} matches")
        ob = _next_sig(body_toks, ch[0][1])
        if cp[-1] == "(":
            # the anchor names only the call (`flat_map(`): the closure header `[move] |p1, p2|` follows; its parameters are
            # renamed to the names the wrapper declares (`closure_params="a b"`), so renaming a closure parameter in the
            # source keeps the block within reach (alpha-renaming; refused if the new name already occurs in the body)
            if ob < len(body_toks) and body_toks[ob].text == "move":
                ob = _next_sig(body_toks, ob)
            if ob >= len(body_toks) or body_toks[ob].text != "|":
                raise AnchorLost(f"block_closure {a['block_closure']!r}: no closure follows the call")
            k = _next_sig(body_toks, ob); names = []
            while k < len(body_toks) and body_toks[k].text != "|":
                if body_toks[k].kind == IDENT and body_toks[k].text not in ("mut", "ref"):
                    names.append(body_toks[k].text)
                k = _next_sig(body_toks, k)
            want = (a.get("closure_params") or "").split()
            ob = _next_sig(body_toks, k)
            if ob < len(body_toks) and body_toks[ob].text == "->":
                # explicit return type: skip to the body block
                while ob < len(body_toks) and body_toks[ob].text != "{":
                    ob += 1
            expr_body = None
            if ob >= len(body_toks) or body_toks[ob].text != "{" or a.get("closure_expr"):
                # expression-bodied closure (`|n| Value { .. }`): the body runs to the closing parenthesis of the call
                call_close = match_close(body_toks, ch[0][1])
                expr_body = (ob, call_close)
                # drop a trailing comma of the argument list
                cb0 = call_close
            else:
                cb0 = match_close(body_toks, ob)
            if want:
                if len(want) != len(names):
                    raise AnchorLost(f"block_closure {a['block_closure']!r}: closure has parameters {names}, wrapper expects {want}")
                ren = {n: w for n, w in zip(names, want) if n != w}
                for w in ren.values():
                    if any(t.kind == IDENT and t.text == w for t in body_toks[ob:cb0]):
                        raise AnchorLost(f"block_closure: cannot rename a closure parameter to `{w}`: the name occurs in the body")
                if ren:
                    for q in range(ob, cb0):
                        if body_toks[q].kind == IDENT and body_toks[q].text in ren:
                            body_toks[q] = T(IDENT, ren[body_toks[q].text])
                    rep.append(("R0", f"closure parameters renamed {ren} (alpha-renaming to the wrapper's names)"))
            if expr_body is not None:
                rep.append(("R0", f"inline block: expression body of the closure `{a['block_closure'][:60]}` wrapped as `{a['wrap']}`"))
                return [T(PUNCT, "{"), T(WS, "\n")] + body_toks[expr_body[0]:expr_body[1]] + [T(WS, "\n"), T(PUNCT, "}")]
        if ob >= len(body_toks) or body_toks[ob].text != "{":
            raise AnchorLost(f"block_closure {a['block_closure']!r}: the closure body is not a block")
        cb = match_close(body_toks, ob)
        if a.get("block_until"):
            # ... up to (excluding) the statement of the closure body that holds this anchor
            hu = [h for h in _find_seq_any(body_toks, pat_tokens(a["block_until"])) if ob < h[0] < cb]
            if not hu:
                raise AnchorLost(f"block_until {a['block_until']!r}: no match inside the closure body")
            cb = _stmt_start_before(body_toks, hu[0][0], 1)
        rep.append(("R0", f"inline block: body of the closure `{a['block_closure'][:60]}` wrapped as `{a['wrap']}`"))
        tail = a.get("tail", "")
        return [T(PUNCT, "{"), T(WS, "\n")] + body_toks[ob + 1:cb] + [T("raw", "\n" + tail + "\n"), T(PUNCT, "}")]
    pat = pat_tokens(frm)
    hits = _find_seq_any(body_toks, pat) if pat else []
    if a.get("block_back") and to:
        # the block starts N statements before the (unique) end-anchor statement: robust against edits of the
        # text of those statements
        ends = _find_seq_any(body_toks, pat_tokens(to))
        if len(ends) != 1:
            raise AnchorLost(f"block_to {to!r}: {len(ends)} matches (block_back)")
        st = _stmt_start_before(body_toks, ends[0][0], 1)
        for _ in range(int(a["block_back"])):
            pv = _prev_sig(body_toks, st)
            if pv < 1:
                break
            st = _stmt_start_before(body_toks, pv, 1)
        e = _stmt_end_from_start(body_toks, _stmt_start_before(body_toks, ends[0][0], 1))
        rep.append(("R0", f"inline block: {a['block_back']} statement(s) before and including `{to[:50]}` extracted"))
        tail = a.get("tail", "")
        return [T(PUNCT, "{"), T(WS, "\n")] + body_toks[st:e] + [T("raw", "\n" + tail + "\n"), T(PUNCT, "}")]
    if len(hits) > 1 and to:
        # ambiguous start: take the occurrence nearest before the (unique) end anchor
        ends = _find_seq_any(body_toks, pat_tokens(to))
        if len(ends) == 1:
            before = [h for h in hits if h[0] <= ends[0][0]]
            if before:
                hits = [before[-1]]
    if len(hits) != 1:
        raise AnchorLost(f"block_from {frm!r}: {len(hits)} matches")
    s = _stmt_start_before(body_toks, hits[0][0], 1)
    s = _hoist_preceding_lets(body_toks, s, a, rep)
    if a.get("block_until"):
        # the block ends where the statement holding this anchor STARTS (the anchor statement itself is not part of it):
        # the text of the block's own last statement may change freely
        hu = [h for h in _find_seq_any(body_toks, pat_tokens(a["block_until"])) if h[0] > hits[0][1]]
        if not hu and to:
            # the statement the block used to end before is not behind it any more (the block was moved): end it with the
            # statement holding the `block_to` anchor instead
            hits2 = [h for h in _find_seq_any(body_toks, pat_tokens(to)) if h[0] >= s]
            if not hits2:
                raise AnchorLost(f"block_until {a['block_until']!r} / block_to {to!r}: no match after block_from")
            e = _stmt_end_from_start(body_toks, _stmt_start_before(body_toks, hits2[0][0], 1))
            rep.append(("R0", f"inline block from {frm!r} to {to!r} (block_until anchor not behind it) wrapped as `{a['wrap']}`"))
            tail = a.get("tail", "")
            return [T(PUNCT, "{"), T(WS, "\n")] + body_toks[s:e] + [T("raw", "\n" + tail + "\n"), T(PUNCT, "}")]
        if not hu:
            raise AnchorLost(f"block_until {a['block_until']!r}: no match after block_from")
        e = _stmt_start_before(body_toks, hu[0][0], 1)
        rep.append(("R0", f"inline block from {frm!r} until (excluding) {a['block_until']!r} wrapped as `{a['wrap']}`"))
        tail = a.get("tail", "")
        return [T(PUNCT, "{"), T(WS, "\n")] + body_toks[s:e] + [T("raw", "\n" + tail + "\n"), T(PUNCT, "}")]
    if to:
        pat2 = pat_tokens(to)
        hits2 = [h for h in _find_seq_any(body_toks, pat2) if h[0] >= s]
        if not hits2:
            raise AnchorLost(f"block_to {to!r}: no match after block_from")
        e = _stmt_end_from_start(body_toks, _stmt_start_before(body_toks, hits2[0][0], 1))
    else:
        e = _stmt_end_from_start(body_toks, s)
    rep.append(("R0", f"inline block from {frm!r} to {to!r} wrapped as `{a['wrap']}`"))
    tail = a.get("tail", "")
    return [T(PUNCT, "{"), T(WS, "\n")] + body_toks[s:e] + [T("raw", "\n" + tail + "\n"), T(PUNCT, "}")]


ASSUME_PAT = re.compile(r"external_body|assume_specification|\badmit\s*\(|\bassume\s*\(|external_type_specification|#\[verifier::external\]|uninterp\s+spec|broadcast\s+axiom|\baxiom\b")


def scan_assumptions(lines, linemap):
    """mechanical scan (DESIGN §3.2): every trusted construct in the generated file."""
    res = []
    n = len(lines)
    for i, ln in enumerate(lines):
        s = ln.strip()
        if s.startswith("//"):
            continue
        m = ASSUME_PAT.search(ln)
        if not m:
            continue
        # describe by the next fn/struct signature line
        desc = s
        for j in range(i, min(i + 6, n)):
            sj = lines[j].strip()
            mm = re.search(r"\b(fn|struct|enum|type)\s+(\w+)", sj)
            if mm or "assume_specification" in sj:
                desc = sj
                break
        lm = linemap.get(i + 1, {})
        res.append(dict(line=i + 1, kind=m.group(0), decl=desc[:200],
                        in_extracted=bool(lm.get("fn")) and not lm.get("stub"),
                        imported=bool(lm.get("stub"))))
    return res


def main(argv):
    import argparse
    ap = argparse.ArgumentParser()
    ap.add_argument("template")
    ap.add_argument("--repo", default=os.environ.get("VERIF_REPO", "/repo"))
    ap.add_argument("-o", "--out", default="-")
    ap.add_argument("--report", default=None)
    ap.add_argument("--path-canaries", action="store_true")
    args = ap.parse_args(argv)
    PATH_CANARIES[0] = bool(args.path_canaries)
    unit = os.path.splitext(os.path.basename(args.template))[0]
    try:
        b = build(open(args.template).read(), args.repo, unit)
    except (AnchorLost, TemplateError, LexError) as e:
        print(f"vx: {type(e).__name__}: {e}", file=sys.stderr)
        return 2
    if args.out == "-":
        sys.stdout.write(b.text)
    else:
        open(args.out, "w").write(b.text)
    if args.report:
        json.dump(dict(report=b.report, fn_ranges=b.fn_ranges, clauses=b.clauses,
                       assumptions=b.assumptions,
                       linemap={str(k): v for k, v in b.linemap.items()}), open(args.report, "w"), indent=1)
    return 0


if __name__ == "__main__":
    sys.exit(main(sys.argv[1:]))
