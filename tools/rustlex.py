"""Minimal Rust lexer + brace-structure helpers used by the extractor (vx.py).

Only what is needed to *locate* items and apply the stated token-level rewrites:
comments (line, nested block), string/byte-string/raw-string literals, char literals vs
lifetimes, identifiers, numbers, single-character punctuation.  No regex on bodies.
"""
from __future__ import annotations
from dataclasses import dataclass

WS, COMMENT, IDENT, LIFETIME, CHAR, STRING, NUM, PUNCT = (
    "ws", "comment", "ident", "lifetime", "char", "string", "num", "punct")


@dataclass
class Tok:
    kind: str
    text: str
    start: int
    end: int

    def __repr__(self):
        return f"{self.kind}:{self.text!r}@{self.start}"


class LexError(Exception):
    pass


def _is_ident_start(c):
    return c.isalpha() or c == "_"


def _is_ident_char(c):
    return c.isalnum() or c == "_"


def lex(src: str) -> list[Tok]:
    toks = []
    i, n = 0, len(src)
    while i < n:
        c = src[i]
        if c.isspace():
            j = i + 1
            while j < n and src[j].isspace():
                j += 1
            toks.append(Tok(WS, src[i:j], i, j)); i = j; continue
        if src.startswith("//", i):
            j = src.find("\n", i)
            if j < 0:
                j = n
            toks.append(Tok(COMMENT, src[i:j], i, j)); i = j; continue
        if src.startswith("/*", i):
            depth, j = 1, i + 2
            while j < n and depth:
                if src.startswith("/*", j):
                    depth += 1; j += 2
                elif src.startswith("*/", j):
                    depth -= 1; j += 2
                else:
                    j += 1
            if depth:
                raise LexError("unterminated block comment")
            toks.append(Tok(COMMENT, src[i:j], i, j)); i = j; continue
        # raw strings r"..", r#".."#, br"..", and byte strings b"..", byte chars b'..'
        if c in "rb":
            j = i
            if src.startswith("br", j):
                j += 2; raw = True
            elif c == "r":
                j += 1; raw = True
            else:
                j += 1; raw = False
            if raw:
                k = j
                while k < n and src[k] == "#":
                    k += 1
                if k < n and src[k] == '"':
                    hashes = k - j
                    endpat = '"' + "#" * hashes
                    e = src.find(endpat, k + 1)
                    if e < 0:
                        raise LexError("unterminated raw string")
                    e += len(endpat)
                    toks.append(Tok(STRING, src[i:e], i, e)); i = e; continue
            else:
                if j < n and src[j] == '"':
                    e = _scan_string(src, j)
                    toks.append(Tok(STRING, src[i:e], i, e)); i = e; continue
                if j < n and src[j] == "'":
                    e = _scan_char(src, j)
                    if e is not None:
                        toks.append(Tok(CHAR, src[i:e], i, e)); i = e; continue
        if c == '"':
            e = _scan_string(src, i)
            toks.append(Tok(STRING, src[i:e], i, e)); i = e; continue
        if c == "'":
            e = _scan_char(src, i)
            if e is not None:
                toks.append(Tok(CHAR, src[i:e], i, e)); i = e; continue
            # lifetime
            j = i + 1
            while j < n and _is_ident_char(src[j]):
                j += 1
            toks.append(Tok(LIFETIME, src[i:j], i, j)); i = j; continue
        if _is_ident_start(c):
            j = i + 1
            while j < n and _is_ident_char(src[j]):
                j += 1
            toks.append(Tok(IDENT, src[i:j], i, j)); i = j; continue
        if c.isdigit():
            j = i + 1
            while j < n and (_is_ident_char(src[j]) or
                             (src[j] == "." and j + 1 < n and src[j + 1].isdigit()
                              and not src.startswith("..", j))):
                j += 1
            toks.append(Tok(NUM, src[i:j], i, j)); i = j; continue
        toks.append(Tok(PUNCT, c, i, i + 1)); i += 1
    return toks


def _scan_string(src, i):
    """src[i] == '"'; return index after closing quote."""
    j, n = i + 1, len(src)
    while j < n:
        if src[j] == "\\":
            j += 2; continue
        if src[j] == '"':
            return j + 1
        j += 1
    raise LexError("unterminated string")


def _scan_char(src, i):
    """src[i] == "'"; return end index if this is a char literal, else None (lifetime)."""
    n = len(src)
    if i + 1 >= n:
        return None
    if src[i + 1] == "\\":
        j = i + 2
        # escape: \n \' \\ \x41 \u{..}
        if j < n and src[j] == "u":
            e = src.find("}", j)
            if e < 0:
                return None
            j = e + 1
        elif j < n and src[j] == "x":
            j += 3
        else:
            j += 1
        if j < n and src[j] == "'":
            return j + 1
        return None
    # 'a' (single char then quote) — else lifetime
    if i + 2 < n and src[i + 2] == "'" and src[i + 1] != "'":
        return i + 3
    return None


OPEN = {"(": ")", "[": "]", "{": "}"}
CLOSE = {v: k for k, v in OPEN.items()}


def sig(toks):
    """indices of significant (non ws/comment) tokens"""
    return [i for i, t in enumerate(toks) if t.kind not in (WS, COMMENT)]


def match_close(toks, i):
    """toks[i] is an opening bracket; return index of its matching close."""
    assert toks[i].kind == PUNCT and toks[i].text in OPEN, toks[i]
    depth = 0
    for j in range(i, len(toks)):
        t = toks[j]
        if t.kind != PUNCT:
            continue
        if t.text in OPEN:
            depth += 1
        elif t.text in CLOSE:
            depth -= 1
            if depth == 0:
                return j
    raise LexError(f"unbalanced bracket at {toks[i].start}")


def text_of(toks):
    return "".join(t.text for t in toks)


def norm(s: str) -> str:
    """whitespace-insensitive normal form of a source fragment (comments dropped)."""
    out = []
    prev = None
    for t in lex(s):
        if t.kind in (WS, COMMENT):
            continue
        if prev is not None and prev.kind in (IDENT, NUM, LIFETIME) and t.kind in (IDENT, NUM, LIFETIME):
            out.append(" ")
        out.append(t.text)
        prev = t
    return "".join(out)
