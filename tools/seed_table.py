#!/usr/bin/env python3
"""seed_table.py <suffix>: the DESIGN.md table of one seeding round, from seeded/C??<suffix>/meta.json"""
import json, glob, os, sys, re
V = os.path.dirname(os.path.dirname(os.path.abspath(__file__)))
suf = sys.argv[1]
print("| seed | change (author's summary, truncated) | failing obligation(s) / outcome |\n|---|---|---|")
tally = {}
for d in sorted(glob.glob(os.path.join(V, "seeded", "C??" + suf))):
    m = json.load(open(os.path.join(d, "meta.json")))
    cr = m.get("check_result", {})
    summ = re.sub(r"\s+", " ", m.get("summary", ""))[:230].replace("|", "\\|")
    ex = cr.get("exit")
    tally[ex] = tally.get(ex, 0) + 1
    if ex == 1:
        res = ", ".join("`" + re.sub(r"^\w+::", "", f) + "`" for f in cr.get("failing_obligations", [])[:3])
    elif ex == 2:
        res = "**UNDECIDED (exit 2)**: " + (cr.get("note") or (cr.get("infra") or [""])[0])[:230].replace("|", "\\|")
    else:
        res = "**" + str(cr.get("outcome")) + "** " + (cr.get("note") or "")[:200]
    print(f"| {os.path.basename(d)} | {summ}… | {res} |")
print("\n", tally, file=sys.stderr)
