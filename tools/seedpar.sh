#!/bin/sh
# usage: seedpar.sh <patch.diff> <prop> [<prop>...] : copy /repo to a scratch dir, apply the patch there, run the checks
# against the copy (VERIF_REPO), remove the copy. Safe to run several at once; /repo is not touched.
P=$(realpath "$1"); shift
D=$(mktemp -d /var/tmp/seedpar.XXXXXX)
rsync -a --exclude target --exclude .git /repo/ "$D/repo/"
( cd "$D/repo" && git init -q . 2>/dev/null && git apply "$P" ) || { echo "patch does not apply"; rm -rf "$D"; exit 3; }
rc=0
for p in "$@"; do (cd /verif && VERIF_REPO="$D/repo" ./check $p --no-evidence | grep -v "^  ok" | cut -c1-600); done
rm -rf "$D"
