#!/usr/bin/env python3
"""mutsweep.py [-j N] [-n COUNT] [-s SEED] [file-substring ...]

Gap finder (development tool, not a registered check): mechanical one-token mutants (relational / boolean operator flips,
off-by-one on literals, negated conditions, a deleted `self.<call>(..);` statement) of the source lines that lie inside
functions under contract.  Every mutant is applied to a scratch copy of /repo and the Verus units that extract from the
mutated file are run ONCE each (all properties at a time).  Output: one line per mutant

    caught | undecided | SURVIVED   file:line   operator   mutated line

A SURVIVED mutant is either equivalent / outside every property, or a contract that is silent about that line: the list is
read by hand (DESIGN.md §0.8).  Mutants are not filtered by the test suite."""
import concurrent.futures as cf
import json, multiprocessing, os, random, re, shutil, subprocess, sys, tempfile

HERE = os.path.dirname(os.path.abspath(__file__))
sys.path.insert(0, HERE)
import run, vx  # noqa: E402
BASE = run.REPO

OPS = [
    ("==->!=", r"(?<![=!<>])==(?!=)", "!="), ("!=->==", r"!=(?!=)", "=="),
    ("<-><=", r"(?<![<=\-])\s<\s(?![=<])", " <= "), ("<=-><", r"\s<=\s", " < "),
    (">->>=", r"(?<![>=\-])\s>\s(?![=>])", " >= "), (">=->>", r"\s>=\s", " > "),
    ("&&->||", r"&&", "||"), ("||->&&", r"\|\|", "&&"),
    ("+1->+2", r"\+ 1\b", "+ 2"), ("-1->-0", r"- 1\b", "- 0"), ("+=1->+=2", r"\+= 1\b", "+= 2"),
    ("true->false", r"\btrue\b", "false"), ("false->true", r"\bfalse\b", "true"),
    ("if !->if", r"\bif !", "if "), ("if->if !", r"\bif (?=[a-z_]+[.(])", "if !"),
    ("is_some->is_none", r"\.is_some\(\)", ".is_none()"), ("is_none->is_some", r"\.is_none\(\)", ".is_some()"),
    ("delete-call", r"^(\s*)(self\.[a-z_]+(\.[a-z_]+)*\([^;]*\)(\.await)?;)\s*$", r"\1// \2"),
]
SKIP = re.compile(r"^\s*(//|trace!|debug!|warn!|error!|info!|#\[|\*|///)|debug_assert|\"")


def spans():
    """file -> list of (lo, hi, unit names) for every fn item under contract"""
    res = {}
    for u in run.discover_units().values():
        if u["engine"] != "verus":
            continue
        b = vx.build(open(u["path"]).read(), run.REPO, u["name"])
        for it in b.report:
            if not isinstance(it, dict) or not it.get("sha256") or it["item"].split()[0] in ("struct", "enum", "const", "type", "static", "trait", "implblock"):
                continue
            m = re.match(r"(\S+):(\d+)-(\d+)", it.get("src", ""))
            if m:
                res.setdefault(m.group(1), []).append((int(m.group(2)), int(m.group(3)), u["name"]))
    return res


def candidates(sp, filt):
    out = []
    for f, lst in sp.items():
        if filt and not any(x in f for x in filt):
            continue
        lines = open(os.path.join(BASE, f)).read().split("\n")
        for i, ln in enumerate(lines, start=1):
            units = sorted({u for (a, b, u) in lst if a <= i <= b})
            if not units or SKIP.search(ln):
                continue
            for name, pat, rep in OPS:
                for m in re.finditer(pat, ln):
                    new = ln[:m.start()] + m.expand(rep) + ln[m.end():] if name != "delete-call" else re.sub(pat, rep, ln)
                    if new != ln:
                        out.append((f, i, name, new, tuple(units)))
                    if name == "delete-call":
                        break
    return out


def one(c):
    f, i, name, new, units = c
    d = tempfile.mkdtemp(prefix="mut.", dir="/var/tmp")
    try:
        subprocess.check_call(["rsync", "-a", "--exclude", "target", "--exclude", ".git", BASE + "/", d + "/repo/"])
        p = os.path.join(d, "repo", f)
        lines = open(p).read().split("\n")
        lines[i - 1] = new
        open(p, "w").write("\n".join(lines))
        run.REPO = d + "/repo"
        allu = run.discover_units()
        verdict = "SURVIVED"; why = ""
        for un in units:
            r = run.run_verus_unit(allu[un], d, "quick")
            if r.get("infra") or r.get("soft_infra"):
                if verdict == "SURVIVED":
                    verdict = "undecided"; why = (r.get("infra") or r.get("soft_infra"))[:100]
            real = [x for x in r["failures"] if not x.get("hint_only") and not x.get("same_vc") and not run.explained_by_lost_hint(x, r)]
            if real:
                verdict = "caught"; why = real[0]["obligation"]
                break
        return verdict, f, i, name, new.strip(), why
    finally:
        shutil.rmtree(d, ignore_errors=True)


def main():
    args = sys.argv[1:]; j = 8; n = 200; seed = 1
    while args and args[0] in ("-j", "-n", "-s"):
        v = int(args[1])
        if args[0] == "-j": j = v
        elif args[0] == "-n": n = v
        else: seed = v
        args = args[2:]
    sp = spans()
    cands = candidates(sp, args)
    random.Random(seed).shuffle(cands)
    cands = cands[:n]
    print(f"# {len(cands)} mutants", flush=True)
    tally = {}
    with cf.ProcessPoolExecutor(max_workers=j, mp_context=multiprocessing.get_context("fork")) as ex:
        for verdict, f, i, name, new, why in ex.map(one, cands):
            tally[verdict] = tally.get(verdict, 0) + 1
            print(f"{verdict}\t{f}:{i}\t{name}\t{new[:110]}\t{why[:90]}", flush=True)
    print("#", tally)


if __name__ == "__main__":
    main()
