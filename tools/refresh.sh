#!/bin/sh
# refresh.sh: run on the UNCHANGED tree after editing units, hints or contracts — regenerates the committed tables the
# checks read (MANIFEST.json, hint_deps.json) and validates the manifest. Never run by a check.
cd /verif || exit 2
python3 tools/mkmanifest.py && python3-vt tools/validate.py && python3 tools/item_hashes.py && python3 tools/hint_deps.py -j 14 | tail -2
