#!/usr/bin/env python3
"""census of /repo/src functions vs. what the units put under contract (reads units/*.vu, units/*.xu, kani units).
Prints per source file: functions extracted (under contract) and functions not named by any unit."""
import re, glob, os, sys, json
REPO = os.environ.get("VERIF_REPO", "/repo")
units = glob.glob(os.path.join(os.path.dirname(__file__), "..", "units", "*.vu")) + glob.glob(os.path.join(os.path.dirname(__file__), "..", "units", "*.xu"))
named = {}   # file -> set of fn names / block descriptors
for u in units:
    for ln in open(u):
        m = re.match(r"^//@extract\s+(.*)$", ln)
        if not m: continue
        a = dict(re.findall(r'(\w+)=("[^"]*"|\S+)', m.group(1)))
        f = a.get("file", "").strip('"')
        fn = a.get("fn", "").strip('"')
        if fn:
            named.setdefault(f, set()).add(fn)
res = {}
for p in sorted(glob.glob(REPO + "/src/**/*.rs", recursive=True)):
    rel = os.path.relpath(p, REPO)
    if rel.endswith("tests.rs") or "/test" in rel: continue
    src = open(p).read()
    # cut test modules
    cut = src.find("#[cfg(test)]")
    if cut >= 0 and "mod test" in src[cut:cut + 200]: src = src[:cut]
    fns = re.findall(r"\bfn\s+(\w+)\s*[<(]", src)
    have = named.get(rel, set())
    cov = [f for f in fns if f in have]
    unc = [f for f in fns if f not in have]
    res[rel] = (cov, unc)
tot_c = sum(len(c) for c, u in res.values()); tot_u = sum(len(u) for c, u in res.values())
for rel, (c, u) in res.items():
    print(f"{rel}: {len(c)}/{len(c)+len(u)} under contract")
    if u: print("    not named:", " ".join(u))
print(f"TOTAL {tot_c}/{tot_c+tot_u}")
