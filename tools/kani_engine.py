"""Engine K / X: Kani (CBMC) on the real crate, harness module injected into a scratch copy of /repo.

A unit is described by /verif/units/<name>.kunit.json:
  { "engine": "kani-inplace", "props": [..],
    "inject": [ {"file": "src/kbucket.rs", "module": "kani/kbucket_iter.rs", "modname": "verif_kani"} ],
    "harnesses": [ {"name": "check_next_in", "props": ["C08"], "tier": "quick", "complete": true,
                    "bound": "unwind 258 = 256-bit width + 2, unwinding assertions on"} ],
    "kani_flags": ["--solver", "kissat"], "timeout_s": 900, "mem_gb": 24 }

Result: same shape as a Verus unit result (obligations / failures / infra ...).
A failing harness is re-run with concrete playback; the generated unit test is executed natively
against the scratch copy (real code) and stored under /verif/replays/<prop>/.
"""
from __future__ import annotations
import json
import os
import re
import shutil
import subprocess
import threading
import time

CACHE = None  # persistent cargo target dir for dependency builds


def _run(cmd, cwd, env, timeout, mem_gb=None):
    pre = ""
    if mem_gb:
        pre = f"ulimit -v {int(mem_gb * 1024 * 1024)}; "
    p = subprocess.Popen(["bash", "-c", pre + "exec " + " ".join(_q(c) for c in cmd)], cwd=cwd, env=env,
                         stdout=subprocess.PIPE, stderr=subprocess.STDOUT, text=True,
                         start_new_session=True)
    try:
        out, _ = p.communicate(timeout=timeout)
        return p.returncode, out, False
    except subprocess.TimeoutExpired:
        try:
            os.killpg(p.pid, 9)
        except Exception:
            pass
        out, _ = p.communicate()
        return -9, out or "", True


def _q(s):
    import shlex
    return shlex.quote(s)


def prepare_copy(repo, scratch, unit, verif):
    dst = os.path.join(scratch, "k", unit["name"], "repo")
    os.makedirs(os.path.dirname(dst), exist_ok=True)
    if os.path.exists(dst):
        shutil.rmtree(dst)
    subprocess.check_call(["rsync", "-a", "--exclude", "target", "--exclude", ".git", repo + "/", dst + "/"])
    injected = []
    for inj in unit.get("inject", []):
        f = os.path.join(dst, inj["file"])
        mod = os.path.join(verif, inj["module"])
        if not os.path.exists(f):
            raise FileNotFoundError(f"inject target {inj['file']} not found in /repo")
        modname = inj.get("modname", "verif_kani")
        # the harness module is COPIED into the scratch tree (concrete playback writes into it)
        os.makedirs(os.path.join(dst, "verif_kani"), exist_ok=True)
        modcopy = os.path.join(dst, "verif_kani", os.path.basename(mod))
        shutil.copyfile(mod, modcopy)
        inj["_copy"] = modcopy
        with open(f, "a") as fh:
            fh.write(f'\n#[cfg(kani)]\n#[path = "{modcopy}"]\nmod {modname};\n')
        injected.append(f"{inj['file']} += #[cfg(kani)] #[path=\"{mod}\"] mod {modname};")
    # offline config
    os.makedirs(os.path.join(dst, ".cargo"), exist_ok=True)
    with open(os.path.join(dst, ".cargo", "config.toml"), "a") as fh:
        fh.write("\n[net]\noffline = true\n")
    return dst, injected


HARNESS_HDR = re.compile(r"^(?:Thread (\d+): )?Checking harness (\S+?)\.\.\.", re.M)


def parse_kani_output(out):
    """-> {harness_fullname: dict(status, failed=[(desc, loc)], checks_total, ...)}; handles the sequential
    format and the `-j N --output-format=terse` format (blocks prefixed by `Thread N:`)."""
    res = {}
    bodies = {}           # harness -> text
    cur_by_thread = {}
    cur = None
    lines = out.split("\n")
    thread_ctx = None
    for ln in lines:
        m = HARNESS_HDR.match(ln)
        if m:
            th, name = m.group(1), m.group(2)
            bodies.setdefault(name, [])
            if th is not None:
                cur_by_thread[th] = name
                thread_ctx = None
            else:
                cur = name
            continue
        m2 = re.match(r"^Thread (\d+):\s*$", ln)
        if m2:
            thread_ctx = m2.group(1)
            continue
        if thread_ctx is not None and thread_ctx in cur_by_thread:
            bodies[cur_by_thread[thread_ctx]].append(ln)
            if ln.startswith("Verification Time:"):
                thread_ctx = None
        elif cur is not None:
            bodies[cur].append(ln)
    for name, bl in bodies.items():
        body = "\n".join(bl)
        st = "unknown"
        m = re.search(r"VERIFICATION:-\s*(\w+)", body)
        if m:
            st = m.group(1)
        failed = []
        for m2 in re.finditer(r"Failed Checks:\s*(.*?)\n\s*File:\s*\"([^\"]*)\", line (\d+)", body):
            failed.append((m2.group(1).strip(), f"{m2.group(2)}:{m2.group(3)}"))
        tot = re.search(r"\*\* (\d+) of (\d+) failed", body)
        secs = re.search(r"Verification Time:\s*([\d.]+)s", body)
        covers = re.search(r"\*\* (\d+) of (\d+) cover properties satisfied", body)
        res[name] = dict(status=st, failed=failed,
                         checks_failed=int(tot.group(1)) if tot else None,
                         checks_total=int(tot.group(2)) if tot else None,
                         seconds=float(secs.group(1)) if secs else None,
                         covers=(int(covers.group(1)), int(covers.group(2))) if covers else None,
                         unwind_fail=bool(re.search(r"Failed Checks: unwinding assertion", body)),
                         body_tail=body[-3000:])
    return res


def run(u, scratch, tier, repo, verif):
    t0 = time.time()
    res = dict(unit=u["name"], engine=u.get("engine", "kani-inplace"), obligations=[], failures=[], infra=None,
               report=[], assumptions=[], extra_assumptions=list(u.get("assumptions", [])), wall=0.0,
               bounded_obligations=[], functions_under_contract=[], vacuity={})
    harnesses = [h for h in u["harnesses"] if tier == "thorough" or h.get("tier", "quick") == "quick"]
    if not harnesses:
        return res
    if res["engine"] == "kani-standalone":
        return run_standalone(u, harnesses, res, scratch, tier, repo, verif, t0)
    try:
        dst, injected = prepare_copy(repo, scratch, u, verif)
    except Exception as e:
        res["infra"] = f"kani unit {u['name']}: cannot prepare scratch copy: {e}"
        return res
    res["extra_assumptions"] += [f"harness injection (add-only, cfg(kani)): {x}" for x in injected]
    env = dict(os.environ)
    env["CARGO_NET_OFFLINE"] = "true"
    cache = os.environ.get("VERIF_KANI_TARGET") or os.path.join(verif, ".cache", "kani-target")
    os.makedirs(cache, exist_ok=True)
    env["CARGO_TARGET_DIR"] = cache
    env["TMPDIR"] = os.path.join(scratch, "tmp")
    os.makedirs(env["TMPDIR"], exist_ok=True)
    flags = list(u.get("kani_flags", ["--solver", "kissat"]))
    cmd = ["cargo", "kani"] + flags
    for h in harnesses:
        cmd += ["--harness", h["name"]]
    jobs = u.get("jobs")
    if jobs:
        cmd += ["-j", str(jobs), "--output-format=terse"]
    res["cmd"] = "cd <scratch copy of /repo> && " + " ".join(cmd)
    # the cargo target dir is shared between checks (C07 and C08 both build this unit): serialize on it, a
    # concurrent `cargo kani` in the same target dir truncates the other's goto binaries
    import fcntl
    lockf = open(os.path.join(cache, ".verif.lock"), "w")
    fcntl.flock(lockf, fcntl.LOCK_EX)
    try:
        rc, out, timed_out = _run(cmd, dst, env, u.get("timeout_s", 1500), u.get("mem_gb"))
    finally:
        fcntl.flock(lockf, fcntl.LOCK_UN)
        lockf.close()
    res["wall"] = time.time() - t0
    logp = os.path.join(scratch, f"kani_{u['name']}.log")
    open(logp, "w").write(out)
    if timed_out:
        res["infra"] = f"kani unit {u['name']}: timeout after {u.get('timeout_s', 1500)}s"
        return res
    parsed = parse_kani_output(out)
    if not parsed:
        res["infra"] = f"kani unit {u['name']}: no harness result in output (build failure?): {out[-1500:]}"
        return res
    for inj in u.get("inject", []):
        res["functions_under_contract"].append(dict(unit=u["name"], engine=res["engine"], item=f"harness module {inj['module']} in {inj['file']}",
                                                    src=inj["file"], sha256=_sha(os.path.join(repo, inj["file"]))))
    for h in harnesses:
        key = next((k for k in parsed if k.split("::")[-1] == h["name"]), None)
        if key is None:
            res["infra"] = f"kani unit {u['name']}: harness {h['name']} produced no result (anchor lost or build error): {out[-800:]}"
            continue
        p = parsed[key]
        props = h.get("props", u["props"])
        ob = dict(name=f"{u['name']}::{h['name']}", props=props, backend="cbmc+" + _solver(flags),
                  seconds=p["seconds"], kind="kani-harness", text=h.get("what", ""),
                  checks=p["checks_total"], bound=h.get("bound"))
        if p["status"] == "SUCCESSFUL":
            ob["status"] = "discharged"
            if p["covers"] and p["covers"][0] < p["covers"][1]:
                res["infra"] = f"kani unit {u['name']}: harness {h['name']}: {p['covers'][1]-p['covers'][0]} cover(s) unsatisfied (vacuity guard)"
            res["vacuity"][h["name"]] = dict(covers=p["covers"])
        elif p["status"] == "FAILED" and not p["failed"]:
            ob["status"] = "undecided"
            res["infra"] = f"kani unit {u['name']}: harness {h['name']}: CBMC failed without a failed check (out of memory / crash) — undecided"
        elif p["status"] == "FAILED":
            ob["status"] = "failed"
            if p["unwind_fail"] and all("unwinding" in d for d, _ in p["failed"]):
                res["infra"] = f"kani unit {u['name']}: harness {h['name']}: unwinding assertion failed (bound too small) — undecided"
                ob["status"] = "undecided"
            else:
                labels = []
                for d, loc in p["failed"]:
                    m = re.match(r"^\"?(C\d{2,3}\.[\w]+)", d)
                    if m and m.group(1) not in labels:
                        labels.append(m.group(1))
                owners = sorted({l.split(".")[0] for l in labels}) or list(props)
                cex = playback(u, h, dst, env, flags, scratch)
                lab = "+".join(labels) if labels else "assertion"
                res["failures"].append(dict(
                    obligation=f"{u['name']}::{h['name']}::{lab}", labels=labels, owners=owners, fn=h["name"],
                    src="; ".join(f"{d} @ {loc}" for d, loc in p["failed"])[:600],
                    message="; ".join(d for d, _ in p["failed"])[:600], clause=h.get("what", ""),
                    rendered=p["body_tail"], counterexample=cex))
        else:
            ob["status"] = "undecided"
            res["infra"] = f"kani unit {u['name']}: harness {h['name']} status {p['status']}: {p['body_tail'][-600:]}"
        if h.get("complete", True):
            res["obligations"].append(ob)
        else:
            ob["bound"] = h.get("bound", "bounded")
            res["bounded_obligations"].append(ob)
    return res


def _solver(flags):
    for i, f in enumerate(flags):
        if f == "--solver" and i + 1 < len(flags):
            return flags[i + 1]
    return "minisat"


def _sha(p):
    import hashlib
    try:
        return hashlib.sha256(open(p, "rb").read()).hexdigest()
    except OSError:
        return ""


def playback(u, h, dst, env, flags, scratch):
    """re-run the failing harness with concrete playback, run the generated test natively; return text"""
    try:
        cmd = ["cargo", "kani"] + flags + ["-Z", "concrete-playback", "--concrete-playback=inplace", "--harness", h["name"]]
        rc, out, to = _run(cmd, dst, env, u.get("timeout_s", 1500), u.get("mem_gb"))
        if to:
            return None
        m = re.search(r"kani_concrete_playback_\w+", out)
        if not m:
            return None
        test = m.group(0)
        gen = ""
        for inj in u.get("inject", []):
            try:
                t = open(inj.get("_copy", "")).read()
                k = t.find("fn " + test)
                if k >= 0:
                    a = t.rfind("#[test]", 0, k)
                    gen = t[a:k + 4000]
                    gen = gen[:gen.find("\n}\n") + 3]
            except OSError:
                pass
        cmd2 = ["cargo", "kani", "playback", "-Z", "concrete-playback", "--", test]
        rc2, out2, to2 = _run(cmd2, dst, env, 900)
        txt = f"kani concrete playback test: {test}\n{gen}\n$ {' '.join(cmd2)}   (native run on the real code)\n" + out2[-3000:]
        return txt
    except Exception as e:  # playback is best effort
        return None


def run_standalone(u, harnesses, res, scratch, tier, repo, verif, t0):
    """engine X: template (/verif/units/<t>.xu) -> stand-alone Rust file with the real items extracted
    mechanically by vx.py next to trusted doubles -> `kani file.rs`."""
    import vx
    tpath = os.path.join(verif, u["template"])
    try:
        built = vx.build(open(tpath).read(), repo, u["name"])
    except (vx.AnchorLost, vx.TemplateError, vx.LexError) as e:
        res["infra"] = f"extraction failed for unit {u['name']}: {type(e).__name__}: {e}"
        return res
    d = os.path.join(scratch, "x", u["name"])
    os.makedirs(d, exist_ok=True)
    src = os.path.join(d, u["name"] + ".rs")
    open(src, "w").write(built.text)
    res["report"] = built.report
    res["extra_assumptions"] += [f"doubles in {u['template']} (trusted text above the `extracted` marker)"]
    env = dict(os.environ)
    env["TMPDIR"] = os.path.join(scratch, "tmp")
    os.makedirs(env["TMPDIR"], exist_ok=True)
    flags = list(u.get("kani_flags", ["--solver", "kissat"]))
    outs = {}
    cmds = []
    for h in harnesses:
        cmd = ["kani", src] + flags + ["--harness", h["name"]]
        cmds.append(" ".join(cmd))
        rc, out, timed_out = _run(cmd, d, env, u.get("timeout_s", 1500), u.get("mem_gb"))
        if timed_out:
            subprocess.call(["pkill", "-x", "cbmc"], stderr=subprocess.DEVNULL)
            res["infra"] = f"kani unit {u['name']}: harness {h['name']} timeout after {u.get('timeout_s', 1500)}s"
            continue
        open(os.path.join(scratch, f"kani_{u['name']}_{h['name']}.log"), "w").write(out)
        parsed = parse_kani_output(out)
        key = next((k for k in parsed if k.split("::")[-1] == h["name"]), None)
        if key is None:
            res["infra"] = f"kani unit {u['name']}: harness {h['name']} produced no result (does the extracted code still fit the doubles?): {out[-1200:]}"
            continue
        p = parsed[key]
        props = h.get("props", u["props"])
        ob = dict(name=f"{u['name']}::{h['name']}", props=props, backend="cbmc+" + _solver(flags), seconds=p["seconds"],
                  kind="kani-harness", text=h.get("what", ""), checks=p["checks_total"], bound=h.get("bound"))
        if p["status"] == "SUCCESSFUL":
            ob["status"] = "discharged"
            if p["covers"] and p["covers"][0] < p["covers"][1]:
                res["infra"] = f"kani unit {u['name']}: harness {h['name']}: cover(s) unsatisfied (vacuity guard)"
            res["vacuity"][h["name"]] = dict(covers=p["covers"])
        elif p["status"] == "FAILED" and not p["failed"]:
            ob["status"] = "undecided"
            res["infra"] = f"kani unit {u['name']}: harness {h['name']}: CBMC failed without a failed check (out of memory / crash) — undecided"
        elif p["status"] == "FAILED":
            ob["status"] = "failed"
            if p["unwind_fail"] and all("unwinding" in dd for dd, _ in p["failed"]):
                res["infra"] = f"kani unit {u['name']}: harness {h['name']}: unwinding assertion failed — undecided"
                ob["status"] = "undecided"
            else:
                labels = []
                for dd, loc in p["failed"]:
                    m = re.match(r"^\"?(C\d{2,3}\.[\w]+)", dd)
                    if m and m.group(1) not in labels:
                        labels.append(m.group(1))
                owners = sorted({l.split(".")[0] for l in labels}) or list(props)
                # concrete playback: print the counterexample as a unit test and run it natively
                cex = None
                try:
                    rc2, out2, to2 = _run(["kani", src] + flags + ["--harness", h["name"], "-Z", "concrete-playback", "--concrete-playback=print"], d, env, u.get("timeout_s", 1500))
                    m = re.search(r"(#\[test\]\s*fn kani_concrete_playback_\w+\(\) \{.*?\n\})", out2, re.S)
                    if m:
                        cex = "kani concrete playback (counterexample as a unit test over the extracted real code):\n" + m.group(1)
                except Exception:
                    pass
                lab = "+".join(labels) if labels else "assertion"
                res["failures"].append(dict(obligation=f"{u['name']}::{h['name']}::{lab}", labels=labels, owners=owners,
                                            fn=h["name"], src="; ".join(f"{dd} @ {loc}" for dd, loc in p["failed"])[:600],
                                            message="; ".join(dd for dd, _ in p["failed"])[:600], clause=h.get("what", ""),
                                            rendered=p["body_tail"], counterexample=cex))
        else:
            ob["status"] = "undecided"
            res["infra"] = f"kani unit {u['name']}: harness {h['name']} status {p['status']}: {p['body_tail'][-600:]}"
        (res["obligations"] if h.get("complete", True) else res["bounded_obligations"]).append(ob)
    res["cmd"] = " ; ".join(cmds)
    res["wall"] = time.time() - t0
    return res
