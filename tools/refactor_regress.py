#!/usr/bin/env python3
"""regression over the harmless refactorings in seeded/refactor/*.diff: each is applied to a scratch copy of /repo and every
(property, unit) pair whose unit extracts from a changed file is run. Expected: exit 0 (or 2 = undecided); exit 1 = false alarm.
usage: refactor_regress.py [-j N] [name ...]   -> prints one line per diff"""
import glob, os, re, subprocess, sys, tempfile, shutil, json
from concurrent.futures import ThreadPoolExecutor
V = os.path.dirname(os.path.dirname(os.path.abspath(__file__)))
units = {}
for p in glob.glob(V + "/units/*.vu") + glob.glob(V + "/units/*.xu"):
    name = os.path.splitext(os.path.basename(p))[0]
    txt = open(p).read()
    m = re.search(r"^//! props:\s*(.*)$", txt, re.M)
    props = m.group(1).split() if m else []
    files = set(re.findall(r"file=(\S+)", txt))
    units[name] = (props, files)
for p in glob.glob(V + "/units/*.kunit.json"):
    d = json.load(open(p)); name = os.path.basename(p)[:-len(".kunit.json")]
    files = set(i["file"] for i in d.get("inject", []))
    if name not in units: units[name] = (d.get("props", []), files)
    else: units[name] = (units[name][0], units[name][1] | files)

def run_one(diff):
    name = os.path.basename(diff)[:-5]
    changed = re.findall(r"^\+\+\+ b/(\S+)", open(diff).read(), re.M)
    d = tempfile.mkdtemp(prefix="rr.", dir="/var/tmp")
    try:
        subprocess.check_call(["rsync", "-a", "--exclude", "target", "--exclude", ".git", "/repo/", d + "/repo/"])
        r = subprocess.run(["git", "apply", diff], cwd=d + "/repo", capture_output=True, text=True)
        if r.returncode != 0:
            return name, 3, "patch does not apply"
        worst = 0; notes = []
        for u, (props, files) in sorted(units.items()):
            if not (set(changed) & files): continue
            for pr in props:
                env = dict(os.environ, VERIF_REPO=d + "/repo")
                r = subprocess.run([V + "/check", pr, "--unit", u, "--no-evidence"], cwd=V, env=env, capture_output=True, text=True)
                if r.returncode == 2 and "zero obligations generated" in r.stdout and "no unit serves" not in r.stdout:
                    continue    # a thorough-tier unit asked for in the quick tier: nothing to run
                if r.returncode != 0:
                    first = [l for l in r.stdout.split("\n") if l.startswith(("VIOLATION", "INFRA", "  failed"))][:2]
                    notes.append(f"{pr}/{u}:exit{r.returncode} " + " | ".join(x[:160] for x in first))
                if r.returncode == 1: worst = 1
                elif r.returncode == 2 and worst == 0: worst = 2
        return name, worst, "; ".join(notes)
    finally:
        shutil.rmtree(d, ignore_errors=True)

if __name__ == "__main__":
    args = sys.argv[1:]; j = 6
    if args[:1] == ["-j"]: j = int(args[1]); args = args[2:]
    diffs = sorted(glob.glob(V + "/seeded/refactor/*.diff"))
    if args: diffs = [d for d in diffs if os.path.basename(d)[:-5] in args]
    with ThreadPoolExecutor(j) as ex:
        for name, worst, notes in ex.map(run_one, diffs):
            print(f"{name}\texit={worst}\t{notes}", flush=True)
