#!/usr/bin/env python3-vt
import json, sys, glob, jsonschema
ok = True
try:
    jsonschema.validate(json.load(open('/verif/MANIFEST.json')), json.load(open('/root/.vp/MANIFEST.schema.json')))
except Exception as e:
    print("MANIFEST invalid:", e); ok = False
es = json.load(open('/root/.vp/EVIDENCE.schema.json'))
for f in sorted(glob.glob('/verif/evidence/*.json')):
    try:
        jsonschema.validate(json.load(open(f)), es)
    except Exception as e:
        print(f, "invalid:", str(e)[:300]); ok = False
print("valid" if ok else "INVALID")
sys.exit(0 if ok else 1)
