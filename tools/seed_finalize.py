#!/usr/bin/env python3
"""seed_finalize.py <suffix> <round> [note.json]: for every seeded/pending/C??<suffix> whose confirm.json says ok, run the
property's check against a scratch copy of /repo with the patch, record the outcome in meta.json and move the directory to
seeded/C??<suffix>/ (patch.diff, demonstration.diff, meta.json). note.json: {"C05i": "why undecided ...", ...}"""
import json, os, re, subprocess, sys, glob, shutil
from concurrent.futures import ThreadPoolExecutor
V = os.path.dirname(os.path.dirname(os.path.abspath(__file__)))
suf, rnd = sys.argv[1], int(sys.argv[2])
notes = json.load(open(sys.argv[3])) if len(sys.argv) > 3 else {}
def one(d):
    name = os.path.basename(d); pid = name[:3]
    cf = os.path.join(d, "confirm.json")
    if not os.path.exists(cf): return name, "no confirm.json"
    c = json.load(open(cf))
    if not c.get("ok"): return name, "NOT CONFIRMED " + json.dumps(c)[:200]
    r = subprocess.run([V + "/tools/seedpar.sh", os.path.join(d, "patch.diff"), pid], capture_output=True, text=True)
    out = r.stdout
    m = re.search(r"exit=(\d)", out)
    ex = int(m.group(1)) if m else -1
    fails = [re.sub(r"\s+\(.*$", "", l.split("failed obligation:")[1].strip()) for l in out.split("\n") if "failed obligation:" in l]
    infra = [l[:400] for l in out.split("\n") if l.startswith("INFRA")]
    meta = json.load(open(os.path.join(d, "meta.json")))
    meta["round"] = rnd
    meta["author"] = "fresh sub-agent given the property text, the summaries of the earlier seeds of this property, a hint which code areas no earlier seed had touched, and a scratch worktree under /tmp (nothing from /verif)"
    meta["demonstration"] = {"file": "demonstration.diff", "test": meta.get("demo_test"), "how": "git apply demonstration.diff (adds a test only); cargo test --offline --lib <test>"}
    meta["confirmed"] = {"by": "main session (tools/confirm_seed.sh), scratch worktree of /repo HEAD under /var/tmp, removed afterwards; tests run in their own network namespace",
                         "clean_tree": "demonstration only: " + c["clean_tree"], "with_patch": "demonstration + patch: " + c["with_patch"],
                         "suite_with_patch_only": c["suite_with_patch_only"], "command": "cargo test --offline --lib " + c["test"]}
    meta["check_result"] = {"command": f"VERIF_REPO=<scratch copy of /repo with the patch> ./check {pid}", "exit": ex,
                            "outcome": {0: "NOT DETECTED", 1: "VIOLATION", 2: "UNDECIDED (exit 2)"}.get(ex, "?"), "failing_obligations": fails, "infra": infra}
    if name in notes: meta["check_result"]["note"] = notes[name]
    json.dump(meta, open(os.path.join(d, "meta.json"), "w"), indent=1)
    dst = os.path.join(V, "seeded", name)
    if os.path.exists(dst): shutil.rmtree(dst)
    os.makedirs(dst)
    shutil.copy(os.path.join(d, "patch.diff"), dst); shutil.copy(os.path.join(d, "demo.diff"), os.path.join(dst, "demonstration.diff")); shutil.copy(os.path.join(d, "meta.json"), dst)
    shutil.rmtree(d)
    return name, f"exit={ex} {'; '.join(fails)[:200]} {' '.join(infra)[:160]}"
ds = sorted(glob.glob(os.path.join(V, "seeded", "pending", "C??" + suf)))
with ThreadPoolExecutor(5) as ex:
    for name, res in ex.map(one, ds): print(name, res, flush=True)
