#!/usr/bin/env python3
"""check runner: ./check <ID> [--tier quick|thorough] [--replay <path>]

Exit 0  all obligations of the property discharged (only listed KNOWN-FINDINGs remain)
Exit 1  + line `VIOLATION property=<id> replay=<path> [no-failing-input-found]`
Exit 2  infrastructure (anchor lost, tool failure, timeout): undecided, never a violation
"""
from __future__ import annotations
import argparse
import concurrent.futures as cf
import glob
import hashlib
import json
import os
import re
import shutil
import subprocess
import sys
import tempfile
import time

HERE = os.path.dirname(os.path.abspath(__file__))
VERIF = os.path.dirname(HERE)
sys.path.insert(0, HERE)
import vx  # noqa: E402

REPO = os.environ.get("VERIF_REPO", "/repo")
UNITS = os.path.join(VERIF, "units")
EVID = os.path.join(VERIF, "evidence")
REPLAYS = os.path.join(VERIF, "replays")
KNOWN = os.path.join(VERIF, "KNOWN_FINDINGS.txt")
ALLOW = os.path.join(VERIF, "contracts", "ASSUMPTIONS.allow")

VERUS_FLAGS = ["--output-json", "--time", "--error-format=json", "--multiple-errors", "50",
               "--triggers-mode", "silent"]


class Infra(Exception):
    pass


# ---------------------------------------------------------------------------------------
# unit discovery
# ---------------------------------------------------------------------------------------

def unit_header(path):
    """//! key: value lines at the top of a unit file"""
    h = {}
    with open(path) as f:
        for ln in f:
            m = re.match(r"^//!\s*(\w+)\s*:\s*(.*)$", ln)
            if m:
                h[m.group(1)] = m.group(2).strip()
            elif ln.strip() and not ln.startswith("//!"):
                break
    return h


def discover_units():
    units = {}
    for p in sorted(glob.glob(os.path.join(UNITS, "*.vu"))):
        h = unit_header(p)
        name = os.path.splitext(os.path.basename(p))[0]
        units[name] = dict(name=name, engine="verus", path=p,
                           props=h.get("props", "").split(), tier=h.get("tier", "quick"),
                           rlimit=h.get("rlimit"), header=h)
    for p in sorted(glob.glob(os.path.join(UNITS, "*.kunit.json"))):
        d = json.load(open(p))
        name = os.path.basename(p)[:-len(".kunit.json")]
        d.update(name=name, path=p)
        d.setdefault("tier", "quick")
        units[name] = d
    return units


# ---------------------------------------------------------------------------------------
# engine V
# ---------------------------------------------------------------------------------------

def label_prop(label):
    m = re.match(r"^(C\d{2,3})\b", label or "")
    return m.group(1) if m else None


def run_verus_unit(u, scratch, tier, extra_flags=()):
    """returns dict(unit, obligations[], failures[], infra (str|None), report, assumptions, wall)"""
    t0 = time.time()
    res = dict(unit=u["name"], engine="verus", obligations=[], failures=[], infra=None,
               report=[], assumptions=[], wall=0.0, functions=[])
    try:
        built = vx.build(open(u["path"]).read(), REPO, u["name"])
    except (vx.AnchorLost, vx.TemplateError, vx.LexError) as e:
        res["infra"] = f"extraction failed for unit {u['name']}: {type(e).__name__}: {e}"
        return res
    d = os.path.join(scratch, "verus")
    os.makedirs(d, exist_ok=True)
    src = os.path.join(d, u["name"] + ".rs")
    open(src, "w").write(built.text)
    res["generated"] = src
    res["report"] = built.report
    res["assumptions"] = built.assumptions
    flags = list(VERUS_FLAGS)
    # default budget 3x Verus' own (10): a proof that is close to the limit must not flip to "undecided" because an
    # unrelated edit elsewhere in the unit perturbed the solver
    flags += ["--rlimit", str(u.get("rlimit") or 30)]
    if "--multiple-errors" in extra_flags:
        k = flags.index("--multiple-errors"); del flags[k:k + 2]
    flags += list(extra_flags)
    cmd = ["verus", src] + flags
    res["cmd"] = " ".join(cmd)
    try:
        p = subprocess.run(cmd, cwd=d, capture_output=True, text=True,
                           timeout=int(u["header"].get("timeout", 600)))
    except subprocess.TimeoutExpired:
        res["infra"] = f"verus timeout on unit {u['name']}"
        return res
    res["wall"] = time.time() - t0
    try:
        out = json.loads(p.stdout)
    except Exception:
        res["infra"] = f"verus produced no JSON for unit {u['name']}: {p.stderr[-2000:]}"
        return res
    vr = out.get("verification-results", {})
    diags = []
    for ln in p.stderr.splitlines():
        ln = ln.strip()
        if ln.startswith("{"):
            try:
                diags.append(json.loads(ln))
            except Exception:
                pass
    errors = [d_ for d_ in diags if d_.get("level") == "error"
              and not d_["message"].startswith("aborting due to")]
    if vr.get("encountered-vir-error") or (not vr.get("success") and vr.get("errors", 0) == 0):
        msg = "; ".join(e["message"] for e in errors)[:1500] or p.stderr[-1500:]
        # a closure contract re-attached by parameter list (its anchor text was gone) may have landed on a closure of a
        # different type: retry once without that fallback (the contract is then simply lost, a soft loss)
        # a proof hint that names a local the code no longer binds (renamed / removed): retry once without those hints
        # (they are soft: what they helped to prove is still checked)
        gen_lines_ = built.text.split("\n")
        missing = set()
        for e_ in errors:
            m_ = re.match(r"cannot find value `(\w+)` in this scope", e_.get("message", ""))
            sp_ = [x for x in e_.get("spans", []) if x.get("is_primary")]
            if m_ and sp_ and 0 < sp_[0]["line_start"] <= len(gen_lines_) and "/*@hint*/" in gen_lines_[sp_[0]["line_start"] - 1]:
                # scoped to the extracted function the hint belongs to (other functions may bind the same name)
                fn_ = None
                for (a_, b_, fnq_, _p, _s) in built.fn_ranges:
                    if a_ <= sp_[0]["line_start"] <= b_:
                        fn_ = fnq_.split("::")[-1].split("#")[0]
                missing.add((fn_ + "::" if fn_ else "") + m_.group(1))
        if missing and not (missing <= vx.DROP_HINT_IDENTS):
            vx.DROP_HINT_IDENTS |= missing
            try:
                r2 = run_verus_unit(u, scratch, tier, extra_flags)
                r2.setdefault("report", []).append(dict(item="proof hints", src="", rewrites=list(vx.DROPPED_HINTS)))
                return r2
            finally:
                vx.DROP_HINT_IDENTS.clear(); vx.DROPPED_HINTS.clear()
        refit = any(("anchor text gone, contract attached" in w or "contract attached with the same renaming" in w) for it in built.report if isinstance(it, dict) for w in it.get("rewrites", []))
        if refit and vx.CLOSURE_FALLBACK[0]:
            vx.CLOSURE_FALLBACK[0] = False
            try:
                return run_verus_unit(u, scratch, tier, extra_flags)
            finally:
                vx.CLOSURE_FALLBACK[0] = True
        # item isolation: when every type error lies inside the text of extracted functions / blocks, those items are
        # outside the verifier's reach on this tree; the unit is rebuilt with them as contract-only stubs so that the
        # OTHER items are still decided (a violation found there stands; the isolated items' obligations are undecided)
        if not vx.FORCE_STUB:
            iso = set(); mappable = bool(errors)
            for e_ in errors:
                sp_ = [x for x in e_.get("spans", []) if x.get("is_primary")] or e_.get("spans", [])
                fnq_ = None
                for x in sp_:
                    for (a_, b_, f_, _p, _s) in built.fn_ranges:
                        if a_ <= x["line_start"] <= b_:
                            fnq_ = f_
                    if fnq_:
                        break
                if fnq_ is None:
                    mappable = False; break
                iso.add(fnq_)
            if mappable and iso:
                vx.FORCE_STUB |= iso
                try:
                    r2 = run_verus_unit(u, scratch, tier, extra_flags)
                finally:
                    vx.FORCE_STUB.clear()
                if not r2.get("infra"):
                    r2["isolated"] = sorted(iso)
                    r2["isolated_items"] = [dict(fn=f_, props=list(_p or u["props"])) for (a_, b_, f_, _p, _s) in built.fn_ranges if f_ in iso]
                    r2["soft_infra"] = (f"unit {u['name']}: {', '.join(sorted(iso))} outside the verifier's reach on this tree "
                                        f"(unsupported construct / type error: {msg[:400]}); verified without "
                                        f"{'its body' if len(iso) == 1 else 'their bodies'}, the obligations of the rest of the unit are decided")
                    return r2
        res["infra"] = f"verus could not process unit {u['name']} (unsupported construct / type error): {msg}"
        res["diagnostics"] = [e.get("rendered", e["message"]) for e in errors][:20]
        return res
    # per-function results
    funcs = {}
    for mod in out.get("times-ms", {}).get("smt", {}).get("smt-run-module-times", []):
        for fb in mod.get("function-breakdown", []):
            funcs[fb["function"]] = fb
    res["functions"] = [dict(function=k, success=v.get("success"), rlimit=v.get("rlimit"),
                             time_us=v.get("time-micros"), mode=v.get("mode:"))
                        for k, v in funcs.items()]
    res["verus_summary"] = vr
    res["smt_ms"] = out.get("times-ms", {}).get("smt", {}).get("smt-run")
    res["verus_version"] = out.get("verus", {}).get("version")

    # map generated line -> enclosing extracted fn
    def fn_of_line(line):
        for (a, b, fn, props, srcloc) in built.fn_ranges:
            if a <= line <= b:
                return fn, props, srcloc
        return None, None, None

    unit_props = u["props"]
    gen_lines = built.text.split("\n")

    def enclosing_decl(line):
        """name of the (non-extracted) fn that textually encloses a generated line"""
        for j in range(line - 1, -1, -1):
            m = re.match(r"^\s*(?:pub\s+)?(?:broadcast\s+)?(?:proof\s+|spec\s+|exec\s+)?fn\s+(\w+)", gen_lines[j])
            if m:
                return m.group(1)
        return "?"

    # failures
    for e in errors:
        msg = e["message"]
        if "rlimit" in msg.lower() or "resource limit" in msg.lower():
            res["infra"] = f"verus resource limit exceeded in unit {u['name']}: {msg}"
            continue
        labels = []
        fn = props = srcloc = None
        spans = e.get("spans", [])
        for s in spans:
            for line in range(s["line_start"], min(s["line_end"], s["line_start"] + 400) + 1):
                lab = built.linemap.get(line, {}).get("label")
                if lab and s["line_end"] - s["line_start"] < 40 and lab not in labels:
                    labels.append(lab)
        # enclosing function = the one containing the primary span (or any span)
        prim = [s for s in spans if s.get("is_primary")] or spans
        for s in prim + spans:
            f, pr, sl = fn_of_line(s["line_start"])
            if f:
                fn, props, srcloc = f, pr, sl
                break
        if fn is None and spans:
            fn = "lemma:" + enclosing_decl(prim[0]["line_start"])
            props = unit_props
        if fn is None:
            fn, props = "?", unit_props
        clause_txt = ""
        for s in spans:
            if s.get("label") and ("failed" in s["label"]):
                clause_txt = " ".join(t["text"].strip() for t in s.get("text", []))[:400]
        # a failing assertion that is part of a proof HINT of the unit (not of the code, not a contract clause) and
        # carries no property label means "the proof script no longer fits this code": undecided, not a violation
        prim_lines = [s_["line_start"] for s_ in prim]
        hint_only = bool(prim_lines) and not labels and all(0 < ln_ <= len(gen_lines) and "/*@hint*/" in gen_lines[ln_ - 1] for ln_ in prim_lines)
        owners = sorted({label_prop(l) for l in labels if label_prop(l)})
        if not owners:
            owners = list(props or unit_props)
        lab = "+".join(labels) if labels else _slug(msg)
        res["failures"].append(dict(
            obligation=f"{u['name']}::{fn}::{lab}", labels=labels, owners=owners, fn=fn, hint_only=hint_only, prim_lines=prim_lines,
            src=srcloc, message=msg, clause=clause_txt,
            rendered=e.get("rendered", "")[:6000]))
    # a hint that FAILS on this tree (an assertion or a lemma precondition inside an anchored proof hint) is assumed by the
    # verifier for the rest of the function and can hide the failure of the code's own obligation: verify the unit once more
    # without those hints; what then fails and does not need the removed hint on the unchanged tree (hint_deps.json) counts
    bad_sites = set()
    # (only when nothing but hints fails: a run that already shows a failing clause or code obligation stands as it is)
    if vx.ABLATE_HINT[0] is None and not os.environ.get("VERIF_NO_HINT_RETRY") and res["failures"] and all(f.get("hint_only") for f in res["failures"]):
        for f in res["failures"]:
            if not f.get("hint_only"):
                continue
            for ln_ in f.get("prim_lines", []):
                m_ = re.search(r"/\*@site:(\d+)\*/", gen_lines[ln_ - 1]) if 0 < ln_ <= len(gen_lines) else None
                if m_ and int(m_.group(1)) < len(vx.HINT_SITES):
                    q_, w_, a_, k_ = vx.HINT_SITES[int(m_.group(1))]
                    bad_sites.add((q_, a_, k_))
    if bad_sites:
        vx.ABLATE_HINT[0] = frozenset(bad_sites)
        try:
            r2 = run_verus_unit(u, scratch, tier, extra_flags)
        finally:
            vx.ABLATE_HINT[0] = None
        if not r2.get("infra"):
            deps = _hint_deps().get(u["name"], {})
            for f2 in r2["failures"]:
                for (q_, a_, k_) in bad_sites:
                    if f2.get("fn") == q_:
                        needs = deps.get(q_, {}).get(f"{a_}#{k_}")
                        if needs is None or needs == "*" or f2["obligation"] in needs:
                            f2["needs_failed_hint"] = f"its proof needs the hint at {a_[:60]!r}, which does not hold on this code"
            r2.setdefault("report", []).append(dict(item="proof hints", src="", rewrites=[f"hint: proof hint at {a_!r} #{k_} of {q_} fails on this tree: unit verified again without it" for (q_, a_, k_) in sorted(bad_sites)]))
            return r2
    # same verification condition as on the unchanged tree?  (item_hashes.json, tools/item_hashes.py)
    if res["failures"]:
        base = _item_hashes().get(u["name"], {})
        cur = {it["item"]: it["sha256"] for it in built.report if isinstance(it, dict) and it.get("sha256")}
        changed = [it for it in set(cur) | set(base) if cur.get(it) != base.get(it)]
        for f in res["failures"]:
            F = f.get("fn")
            if not base or not F or F not in base or cur.get(F) != base[F]:
                continue
            ftxt = "\n".join(ln_ for (a, b, fn_, _p, _s) in built.fn_ranges if fn_ == F for ln_ in gen_lines[a - 1:b])
            toks_ = set(re.findall(r"[A-Za-z_]\w*", ftxt))
            def _names(item):
                # `struct X` / `enum X` / `const X` ... -> X ; `Type::method#block` -> method (and Type)
                parts = re.split(r"[\s:#<>]+", item)
                return {p_ for p_ in parts if re.fullmatch(r"[A-Za-z_]\w*", p_ or "") and p_ not in ("struct", "enum", "const", "type", "impl", "as", "for", "static", "trait", "implblock")}
            relevant = [it for it in changed if _names(it) & toks_]
            if not relevant:
                f["same_vc"] = True
    # obligations: per function one "body" obligation + labelled clauses
    failed_fns = {f["fn"] for f in res["failures"]}
    by_fn_clauses = {}
    for c in built.clauses:
        by_fn_clauses.setdefault(c["fn"], []).append(c)
    failed_names = {f["obligation"] for f in res["failures"]}
    for (a, b, fn, props, srcloc) in built.fn_ranges:
        vname = _verus_fn_lookup(funcs, fn)
        fb = funcs.get(vname) if vname else None
        secs = (fb.get("time-micros", 0) / 1e6) if fb else None
        own_labels = {c["label"] for c in by_fn_clauses.get(fn, []) if c["label"]}
        body_failed = any(f["fn"] == fn and (not f["labels"] or not set(f["labels"]) <= own_labels)
                          for f in res["failures"])
        res["obligations"].append(dict(
            name=f"{u['name']}::{fn}::body(safety+callee-preconditions)", props=props, src=srcloc,
            status="failed" if body_failed else "discharged", backend="z3-via-verus", seconds=secs))
        for c in by_fn_clauses.get(fn, []):
            lab = c["label"] or f"{c['kind']}#{_slug(c['text'])[:24]}"
            own = [label_prop(c["label"])] if label_prop(c["label"]) else props
            failed = any(f["fn"] == fn and c["label"] and c["label"] in f["labels"]
                         for f in res["failures"])
            if not c["label"] and body_failed:
                failed = True
            res["obligations"].append(dict(
                name=f"{u['name']}::{fn}::{lab}", props=own, src=srcloc, kind=c["kind"],
                text=c["text"][:300], status="failed" if failed else "discharged",
                backend="z3-via-verus", seconds=secs))
    # lemmas / other verified functions in the template text
    extracted = {fn for (_, _, fn, _, _) in built.fn_ranges}
    ext_short = {e.split("::")[-1].split("#")[0] for e in extracted}
    # inline blocks are emitted under the name given by their `wrap=` signature: the first `fn <name>` of the range
    for (a, b, fn, _, _) in built.fn_ranges:
        for ln in gen_lines[max(a - 1, 0):b]:
            mw = re.search(r"\bfn\s+(\w+)", ln)
            if mw:
                ext_short.add(mw.group(1))
                break
    for k, v in funcs.items():
        short = k.split("::")[-1]
        if v.get("mode:") == "proof" or short not in ext_short:
            if short in ext_short:
                continue
            failed = (not v.get("success"))
            res["obligations"].append(dict(
                name=f"{u['name']}::lemma:{short}", props=unit_props, status="failed" if failed else "discharged",
                backend="z3-via-verus", seconds=v.get("time-micros", 0) / 1e6, kind=v.get("mode:")))
    # call-site census (unit header `callsites:`): the number of textual call sites of the listed functions
    # is part of the contract (a new caller would bypass the call-site obligations)
    cs = u["header"].get("callsites")
    if cs:
        import rustlex
        for item in cs.split():
            m = re.match(r"^(.+?):(.+)=(\d+)$", item)
            if not m:
                continue
            rel, pat, want = m.group(1), m.group(2), int(m.group(3))
            try:
                txt = open(os.path.join(REPO, rel)).read()
                # ignore test modules: cut at `#[cfg(test)]`
                cut = txt.find("#[cfg(test)]")
                if cut >= 0:
                    txt = txt[:cut]
                toks = [t.text for t in rustlex.lex(txt) if t.kind not in (rustlex.WS, rustlex.COMMENT)]
                pt = [t.text for t in rustlex.lex(pat) if t.kind not in (rustlex.WS, rustlex.COMMENT)]
                n = sum(1 for i in range(len(toks) - len(pt) + 1) if toks[i:i + len(pt)] == pt)
            except OSError as e:
                res["infra"] = f"callsite census: {e}"
                continue
            name = f"{u['name']}::callsites::{rel}:{pat}"
            ok = (n == want)
            res["obligations"].append(dict(name=name, props=unit_props, status="discharged" if ok else "failed",
                                           backend="extractor (token census)", seconds=0.0, kind="census",
                                           text=f"{pat} occurs {want} time(s) in {rel}"))
            if not ok:
                res["failures"].append(dict(obligation=name, labels=[], owners=list(unit_props), fn="callsites", src=rel,
                                            message=f"call-site census: `{pat}` occurs {n} time(s) in {rel}, contract covers {want}",
                                            clause=f"{pat} x{want}", rendered=""))
    if not res["infra"] and vr.get("errors", 0) > 0 and not res["failures"]:
        res["infra"] = f"verus reported {vr.get('errors')} error(s) in unit {u['name']} but no diagnostic could be attributed"
    return res


def _verus_fn_lookup(funcs, qual):
    short = qual.split("::")[-1].split("#")[0]
    cands = [k for k in funcs if k.split("::")[-1] == short]
    if len(cands) == 1:
        return cands[0]
    ty = qual.split("::")[0] if "::" in qual else ""
    for k in cands:
        if ty and ty in k:
            return k
    return cands[0] if cands else None


def _slug(s):
    return re.sub(r"[^A-Za-z0-9]+", "-", s.strip())[:60].strip("-")


# ---------------------------------------------------------------------------------------
# engine K / X (Kani) — see tools/kani_engine.py
# ---------------------------------------------------------------------------------------

def run_kani_unit(u, scratch, tier):
    import kani_engine
    return kani_engine.run(u, scratch, tier, REPO, VERIF)


# ---------------------------------------------------------------------------------------
# known findings
# ---------------------------------------------------------------------------------------

def load_known():
    res = []
    if not os.path.exists(KNOWN):
        return res
    for ln in open(KNOWN):
        ln = ln.strip()
        m = re.match(r"^finding:\s*property=(\S+)\s+obligation=(\S+)\s*(.*)$", ln)
        if m:
            res.append(dict(prop=m.group(1), obligation=m.group(2), text=m.group(3)))
    return res


def load_allow():
    pats = []
    if os.path.exists(ALLOW):
        for ln in open(ALLOW):
            ln = ln.strip()
            if ln and not ln.startswith("#"):
                pats.append(ln)
    return pats


# ---------------------------------------------------------------------------------------
# main
# ---------------------------------------------------------------------------------------

def write_replay(prop, fail, unit_res):
    d = os.path.join(REPLAYS, prop)
    os.makedirs(d, exist_ok=True)
    name = _slug(fail["obligation"]) + ".txt"
    path = os.path.join(d, name)
    with open(path, "w") as f:
        f.write(f"property: {prop}\n")
        f.write(f"failed obligation: {fail['obligation']}\n")
        f.write(f"engine: {unit_res['engine']}\n")
        f.write(f"function: {fail.get('fn')}   source: {fail.get('src')}\n")
        f.write(f"clause: {fail.get('clause')}\n")
        f.write(f"verifier message: {fail.get('message')}\n")
        f.write(f"checker command: {unit_res.get('cmd')}\n")
        if fail.get("counterexample"):
            f.write("\ncounterexample (replayed on the real code):\n")
            f.write(fail["counterexample"] + "\n")
        else:
            f.write("\nno-failing-input-found: the verifier (Verus/Z3) gives no model; the obligation "
                    "passed on the unchanged tree and fails on this one.\n")
        f.write("\n---- verifier output ----\n")
        f.write(fail.get("rendered", "") + "\n")
    return path


def main(argv=None):
    ap = argparse.ArgumentParser()
    ap.add_argument("prop")
    ap.add_argument("--tier", default=os.environ.get("VERIF_TIER", "quick"), choices=["quick", "thorough"])
    ap.add_argument("--replay", default=None)
    ap.add_argument("--keep", action="store_true", help="keep scratch directory")
    ap.add_argument("--unit", default=None, help="run only this unit (debugging)")
    ap.add_argument("--no-evidence", action="store_true")
    args = ap.parse_args(argv)
    prop = args.prop
    seed = int(os.environ.get("VERIF_SEED", "0") or 0)
    t0 = time.time()

    if args.replay:
        return do_replay(prop, args.replay)

    units = discover_units()
    mine = [u for u in units.values() if prop in u.get("props", [])
            and (args.tier == "thorough" or u.get("tier", "quick") == "quick")]
    if args.unit:
        mine = [u for u in mine if u["name"] == args.unit]
    if not mine:
        print(f"INFRA property={prop} reason=no unit serves this property")
        return 2
    scratch_root = os.environ.get("VERIF_SCRATCH") or tempfile.mkdtemp(prefix="verif-", dir="/var/tmp")
    os.makedirs(scratch_root, exist_ok=True)
    results = []
    try:
        vunits = [u for u in mine if u["engine"] == "verus"]
        kunits = [u for u in mine if u["engine"] != "verus"]
        with cf.ProcessPoolExecutor(max_workers=8, mp_context=__import__("multiprocessing").get_context("fork")) as ex:  # processes, not threads: vx keeps per-build state in module globals
            futs = {ex.submit(run_verus_unit, u, scratch_root, args.tier): u for u in vunits}
            for u in kunits:
                futs[ex.submit(run_kani_unit, u, scratch_root, args.tier)] = u
            for f in cf.as_completed(futs):
                try:
                    results.append(f.result())
                except Exception as e:  # tool crash
                    import traceback
                    results.append(dict(unit=futs[f]["name"], engine=futs[f]["engine"], obligations=[],
                                        failures=[], infra=f"runner exception: {e}\n{traceback.format_exc()}",
                                        report=[], assumptions=[], wall=0))
        if args.tier == "thorough":
            results += thorough_extras(prop, vunits, scratch_root)
        return finish(prop, args, seed, t0, results)
    finally:
        if not args.keep:
            shutil.rmtree(scratch_root, ignore_errors=True)
        else:
            print(f"scratch kept at {scratch_root}")


def thorough_extras(prop, vunits, scratch_root):
    """thorough tier: (a) canary — every labelled clause of the property negated one at a time
    must be REJECTED (vacuity/discrimination guard); (b) stability — rerun with a different
    rlimit."""
    import canary
    return canary.run(prop, vunits, scratch_root, run_verus_unit, REPO)


_HINT_DEPS = None
_ITEM_HASHES = None


def _item_hashes():
    global _ITEM_HASHES
    if _ITEM_HASHES is None:
        try:
            _ITEM_HASHES = json.load(open(os.path.join(VERIF, "item_hashes.json")))
        except Exception:
            _ITEM_HASHES = {}
    return _ITEM_HASHES



def _hint_deps():
    global _HINT_DEPS
    if _HINT_DEPS is None:
        try:
            _HINT_DEPS = json.load(open(os.path.join(VERIF, "hint_deps.json")))
        except Exception:
            _HINT_DEPS = {}
    return _HINT_DEPS


def explained_by_lost_hint(f, r):
    """A failing obligation of function F is not held against the code when a proof hint of F could not be placed on this
    tree (its anchor text is gone) and, on the unchanged tree, the obligation's proof NEEDS that hint (hint_deps.json,
    computed by tools/hint_deps.py by leaving each hint out in turn).  Returns the reason, or None when no lost hint
    explains the failure (then it is a violation).  A lost `replace` is not a lost proof: the text it would have rewritten
    is simply absent and the function was verified as it stands; the same holds for the contract of a closure that is gone
    when every closure still in the function has its contract."""
    global _HINT_DEPS
    lost = []
    for rep in r.get("report", []):
        if not isinstance(rep, dict) or rep.get("item") not in (f.get("fn"), "proof hints"):
            continue
        for w in rep.get("rewrites", []):
            # not a lost proof: a `replace` whose text is absent; a `local` alias whose binder changed shape (the hints were
            # placed under the old name and type-checked); the contract of a closure that no longer exists
            if w.startswith("LOST") and "LOST: replace:" not in w and not w.startswith("LOST: local ") and "closures left without a contract in the function: 0)" not in w:
                lost.append(w)
    if not lost:
        return None
    if _HINT_DEPS is None:
        try:
            _HINT_DEPS = json.load(open(os.path.join(VERIF, "hint_deps.json")))
        except Exception:
            _HINT_DEPS = {}
    table = _HINT_DEPS.get(r["unit"], {}).get(f.get("fn"), {})
    for w in lost:
        m = re.match(r"LOST: proof-hint anchor (.*) #(\d+) not found", w)
        if not m:
            return "a contract or alias of the function could not be attached: " + w[:120]
        try:
            anchor = __import__("ast").literal_eval(m.group(1))
        except Exception:
            return "lost hint not identifiable: " + w[:120]
        needs = table.get(f"{anchor}#{m.group(2)}")
        if needs is None:
            return f"lost hint {anchor[:60]!r} is not in hint_deps.json"
        if needs == "*" or f["obligation"] in needs:
            return f"its proof needs the hint at {anchor[:60]!r}, which is gone"
    return None


def finish(prop, args, seed, t0, results):
    known = [k for k in load_known() if k["prop"] == prop]
    infra = [r["infra"] for r in results if r.get("infra")]
    # items that were isolated (contract-only) because their body is outside reach on this tree: undecided for every
    # property the unit serves (the unverifiable body may matter to any of them), unless a violation is found elsewhere
    for r in results:
        if r.get("soft_infra"):
            infra.append(r["soft_infra"])
    obligations = []
    failures = []
    for r in results:
        for o in r["obligations"]:
            if prop in (o.get("props") or []):
                obligations.append(dict(o, unit=r["unit"], engine=r["engine"]))
        for f in r["failures"]:
            if prop in f["owners"]:
                failures.append((f, r))
    violations = []
    known_hits = []
    seen = set()
    uniq = []
    for f, r in failures:
        if f["obligation"] in seen:
            continue
        seen.add(f["obligation"]); uniq.append((f, r))
    failures = uniq
    hint_fail = []
    unfit = []
    for f, r in failures:
        k = next((k for k in known if k["obligation"] == f["obligation"]), None)
        if k:
            known_hits.append((k, f))
        elif f.get("hint_only"):
            hint_fail.append((f, r))
        else:
            why = explained_by_lost_hint(f, r) or f.get("needs_failed_hint")
            if not why and f.get("same_vc"):
                why = ("the function and every extracted item it names are textually unchanged: this is the verification condition "
                       "that is discharged on the unchanged tree (solver instability, not the change under test)")
            if why:
                unfit.append((f, r, why))
            else:
                violations.append((f, r))
    if unfit and not violations:
        # the obligation fails, but a proof hint its proof needs on the unchanged tree could not be placed on this code:
        # the proof script does not fit the changed function, which says nothing about the property (undecided)
        infra.append("obligation(s) fail for a reason other than the code under test (undecided): "
                     + "; ".join(f"{f['obligation']} [{why}]" for f, _, why in unfit[:4]))
    if hint_fail and not violations:
        # only proof-script assertions fail, no contract clause and no obligation of the code itself: undecided
        infra.append("proof hint(s) of the unit no longer hold on this code and nothing else fails (the proof script does not "
                     "fit the changed code; undecided): " + "; ".join(f["obligation"] for f, _ in hint_fail[:4]))
    # allow-list scan of trusted constructs
    allow = load_allow()
    unlisted = []
    assumptions = []
    for r in results:
        for a in r.get("assumptions", []):
            desc = f"[{r['unit']}] {a['kind']}: {a['decl']}"
            assumptions.append(desc)
            if a.get("in_extracted"):
                unlisted.append(desc + "  (inside extracted code!)")
        for a in r.get("extra_assumptions", []):
            assumptions.append(f"[{r['unit']}] {a}")
    if unlisted:
        infra.append("trusted construct inside extracted function text: " + "; ".join(unlisted[:5]))
    # obligations that are recorded known findings are reported separately (coverage.known_findings):
    # the proof claim covers the remaining ones
    known_names = {k["obligation"] for k, _ in known_hits}
    kf_obls = [o for o in obligations if o["name"] in known_names]
    obligations = [o for o in obligations if o["name"] not in known_names]
    n_obl = len(obligations)
    n_dis = sum(1 for o in obligations if o["status"] == "discharged")
    bounded = [dict(o) for r in results for o in r.get("bounded_obligations", []) if prop in (o.get("props") or [])]
    wall = time.time() - t0

    rc = 0
    lines = []
    for k, f in known_hits:
        lines.append(f"KNOWN-FINDING: property={prop} {k['obligation']} {k['text']}")
    if infra and not violations:
        for i in infra:
            lines.append(f"INFRA property={prop} reason={i[:1500]}")
        rc = 2
    if n_dis != n_obl and not violations and rc == 0:
        bad = [o["name"] for o in obligations if o["status"] != "discharged"][:5]
        lines.append(f"INFRA property={prop} reason=undischarged obligation(s) without an attributable failure: {bad}")
        rc = 2
    if n_obl == 0 and not violations and rc == 0:
        lines.append(f"INFRA property={prop} reason=zero obligations generated (vacuity guard)")
        rc = 2
    replay_paths = []
    for f, r in violations:
        path = write_replay(prop, f, r)
        replay_paths.append(path)
        tail = "" if f.get("counterexample") else " no-failing-input-found"
        lines.append(f"VIOLATION property={prop} replay={path}{tail}")
        lines.append(f"  failed obligation: {f['obligation']}  ({f['message']})")
        rc = 1
    if not args.no_evidence:
        write_evidence(prop, args.tier, seed, results, obligations, n_obl, n_dis, bounded,
                       assumptions, wall, len(violations), known_hits, infra)
    for ln in lines:
        print(ln)
    lost = [f"{r['unit']}: {rep['item']}: {w}" for r in results for rep in r.get("report", []) for w in rep.get("rewrites", []) if w.startswith("LOST")]
    for l in lost:
        print(f"NOTE lost-hint {l[:300]}")
    print(f"property={prop} tier={args.tier} units={len(results)} obligations={n_obl} discharged={n_dis} lost_hints={len(lost)} "
          f"bounded={len(bounded)} known_findings={len(known_hits)} violations={len(violations)} wall={wall:.1f}s exit={rc}")
    return rc


def write_evidence(prop, tier, seed, results, obligations, n_obl, n_dis, bounded, assumptions,
                   wall, nviol, known_hits, infra):
    os.makedirs(EVID, exist_ok=True)
    fns = []
    reports = []
    for r in results:
        for rep in r.get("report", []):
            reports.append(dict(rep, unit=r["unit"]))
            fns.append(dict(unit=r["unit"], engine=r["engine"], item=rep.get("item", "?"), src=rep.get("src", ""), sha256=rep.get("sha256", "")))
        for f in r.get("functions_under_contract", []):
            fns.append(f)
    samples = [dict(name=o["name"], status=o["status"], text=o.get("text", ""), backend=o.get("backend"))
               for o in obligations if o.get("text")][:8] or \
              [dict(name=o["name"], status=o["status"], backend=o.get("backend")) for o in obligations[:8]]
    cmds = [r.get("cmd") for r in results if r.get("cmd")]
    trusted = sorted(set(assumptions))
    ev = dict(
        property_id=prop, tier=tier, seed=seed, level="proof",
        coverage=dict(
            obligations=n_obl, discharged=n_dis,
            checker_cmd=" ; ".join(cmds)[:4000] or "none",
            trusted_base=trusted,
            samples=samples,
            functions_under_contract=fns,
            obligation_list=[dict(name=o["name"], engine=o["engine"], backend=o.get("backend"),
                                  seconds=o.get("seconds"), status=o["status"]) for o in obligations],
            bounded_obligations=bounded,
            extraction_report=reports,
            units=[dict(unit=r["unit"], engine=r["engine"], wall_s=round(r.get("wall", 0), 2),
                        solver_ms=r.get("smt_ms"), verus=r.get("verus_summary"),
                        vacuity=r.get("vacuity")) for r in results],
            known_findings=[k["obligation"] for k, _ in known_hits],
            infra=infra,
            explanation="contract-based deductive verification: obligations generated from /repo's current "
                        "source (mechanical extraction, DESIGN.md §2) and discharged function by function",
        ),
        assumptions=trusted,
        wall_s=round(wall, 2),
        violations=nviol,
    )
    with open(os.path.join(EVID, f"{prop}.json"), "w") as f:
        json.dump(ev, f, indent=1)


def do_replay(prop, path):
    if not os.path.exists(path):
        print(f"replay file {path} not found")
        return 2
    txt = open(path).read()
    print(txt[:4000])
    m = re.search(r"^native replay command: (.*)$", txt, re.M)
    if m:
        print("running:", m.group(1))
        return subprocess.call(m.group(1), shell=True)
    # re-run the check and see whether the same obligation still fails
    m = re.search(r"^failed obligation: (\S+)", txt, re.M)
    rc = main([prop, "--no-evidence"])
    return rc


if __name__ == "__main__":
    sys.exit(main())
