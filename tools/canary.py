"""Thorough tier, vacuity / reachability guard (run by run.py --tier thorough).

For every Verus unit of the property a second template is generated in which every extracted
function that carries a contract gets `assert(false)` as its first statement, labelled
CANARY.vacuity (an assertion at entry, not a postcondition: a false postcondition would be
assumed by every caller and poison their canaries).  A function whose canary is *proved* has an
unsatisfiable precondition, i.e. every clause proved for it in the quick tier was proved
vacuously.  Expected outcome: the canary of every such function is REJECTED by the verifier.

The result is reported as one obligation per function:
  <unit>::<fn>::canary(precondition-satisfiable)   discharged  == the canary was rejected
A proved canary is an INFRA result (the check itself is broken), never a VIOLATION of the
property.
"""
import os
import re
import tempfile


def _canary_template(text):
    """insert `//@ ensures CANARY.vacuity: false` after every `//@extract ... fn=` directive line that is
    followed by at least one requires/ensures clause before its `//@end` (items without a contract of
    their own and stubs are skipped)."""
    out = []
    lines = text.split("\n")
    i = 0
    n_ins = 0
    while i < len(lines):
        ln = lines[i]
        if ln.startswith("//@extract") and re.search(r"\bfn=", ln) and "mode=stub" not in ln:
            j = i + 1
            has_contract = False
            while j < len(lines) and not lines[j].startswith("//@end"):
                if re.match(r"^//@\s*(requires|ensures)\b", lines[j]):
                    has_contract = True
                j += 1
            out += lines[i:j]
            if has_contract:
                # last `entry:` directive of the item, so that it follows hints that must come first (`hide(..)`)
                out.append("//@ entry: proof { assert(false); } // @CANARY.vacuity")
                n_ins += 1
            i = j
            continue
        out.append(ln)
        i += 1
    return "\n".join(out), n_ins


def run(prop, vunits, scratch_root, run_verus_unit, repo):
    results = []
    for u in vunits:
        text = open(u["path"]).read()
        ctext, n_ins = _canary_template(text)
        res = dict(unit=u["name"] + "#canary", engine="verus", obligations=[], failures=[], infra=None,
                   report=[], assumptions=[], wall=0.0, functions=[])
        if n_ins == 0:
            results.append(res)
            continue
        # the canary template lives next to the real one so that `//@include inc/...` resolves
        fd, tmp = tempfile.mkstemp(prefix=".canary_" + u["name"] + "_", suffix=".vu", dir=os.path.dirname(u["path"]))
        try:
            with os.fdopen(fd, "w") as f:
                f.write(ctext)
            cu = dict(u)
            cu["path"] = tmp
            hdr = dict(u.get("header", {}))
            cu["header"] = hdr
            r = run_verus_unit(cu, os.path.join(scratch_root, "canary_" + u["name"]), "thorough",
                               extra_flags=("--multiple-errors", "400"))
        finally:
            try:
                os.unlink(tmp)
            except OSError:
                pass
        res["wall"] = r.get("wall", 0.0)
        if r.get("infra") and "resource limit" not in r["infra"]:
            res["infra"] = "canary run: " + r["infra"]
            results.append(res)
            continue
        rejected = set()
        for f in r["failures"]:
            if "CANARY.vacuity" in (f.get("labels") or []):
                rejected.add(f["fn"])
        # functions that received a canary = functions with a labelled/unlabelled requires|ensures clause
        with_canary = []
        for o in r["obligations"]:
            m = re.match(r"^" + re.escape(u["name"]) + r"::(.+)::body\(safety", o["name"])
            if m:
                with_canary.append((m.group(1), o))
        contract_fns = set()
        for o in r["obligations"]:
            if o.get("kind") in ("requires", "ensures"):
                contract_fns.add(o["name"][len(u["name"]) + 2:].rsplit("::", 1)[0])
        proved = []
        for fn, o in with_canary:
            if fn not in contract_fns:
                continue
            ok = fn in rejected
            res["obligations"].append(dict(
                name=f"{u['name']}::{fn}::canary(precondition-satisfiable)", props=o.get("props") or u["props"],
                src=o.get("src"), kind="canary", status="discharged" if ok else "failed",
                backend="z3-via-verus", seconds=o.get("seconds")))
            if not ok:
                proved.append(fn)
        if proved:
            res["infra"] = ("vacuous contract: `assert(false)` at function entry was PROVED for " + ", ".join(proved[:8]) +
                            f" in unit {u['name']} (unsatisfiable precondition)")
        results.append(res)
        results.append(_path_canaries(u, scratch_root, run_verus_unit))
    return results


def _path_canaries(u, scratch_root, run_verus_unit):
    """second guard: a reachability canary after every statement of every extracted function (vx.rw_path_canaries).  A
    canary that is NOT rejected marks a point the verifier considers unreachable: a contradiction among the assumed
    contracts of the doubles (or the contract itself) makes everything after it vacuous.  One obligation per function:
      <unit>::<fn>::canary(all N statement points reachable)"""
    import vx
    res = dict(unit=u["name"] + "#pathcanary", engine="verus", obligations=[], failures=[], infra=None,
               report=[], assumptions=[], wall=0.0, functions=[])
    vx.PATH_CANARIES[0] = True
    try:
        r = run_verus_unit(u, os.path.join(scratch_root, "pathcanary_" + u["name"]), "thorough",
                           extra_flags=("--multiple-errors", "2000"))
    finally:
        vx.PATH_CANARIES[0] = False
    res["wall"] = r.get("wall", 0.0)
    if r.get("infra"):
        # the canaries multiply the work per function: a resource limit here is not a statement about the unit
        res["report"].append(dict(item="path-canaries", src="", rewrites=["NOTE: path-canary run undecided: " + r["infra"][:200]]))
        if "resource limit" not in r["infra"]:
            res["infra"] = "path-canary run: " + r["infra"]
        return res
    import json as _json
    inserted = {}
    for item in r.get("report", []):
        for rw in (item.get("rewrites", []) if isinstance(item, dict) else []):
            m = re.match(r"^CANARY: path canaries in (.+?): (\{.*\})$", rw if isinstance(rw, str) else "")
            if m:
                inserted.setdefault(m.group(1), {}).update({int(k): v for k, v in _json.loads(m.group(2)).items()})
    rejected = set()
    for f in r["failures"]:
        for lab in (f.get("labels") or []):
            m = re.match(r"^CANARY\.path\.(\d+)$", lab)
            if m:
                rejected.add(int(m.group(1)))
    # points that are unreachable in the real code (dead code that the proof shows to be dead): listed, with the reason, in
    # /verif/canary_unreachable.json, keyed by unit, function and the text of the statement / block header
    try:
        allow = _json.load(open(os.path.join(os.path.dirname(os.path.dirname(os.path.abspath(__file__))), "canary_unreachable.json")))
    except OSError:
        allow = {}
    allowed = {k for k in allow.get(u["name"], {})}
    bad = []
    for fn, ids in sorted(inserted.items()):
        missing = sorted(c for c in ids if c not in rejected and f"{fn}::{ids[c]}" not in allowed)
        n_allowed = sum(1 for c in ids if c not in rejected and f"{fn}::{ids[c]}" in allowed)
        res["obligations"].append(dict(
            name=f"{u['name']}::{fn}::canary(all {len(ids)} statement points reachable" + (f", {n_allowed} listed dead-code point(s) excepted" if n_allowed else "") + ")",
            props=u["props"], kind="canary",
            status="failed" if missing else "discharged", backend="z3-via-verus", seconds=None))
        if missing:
            bad.append(f"{fn} [" + "; ".join(ids[c] for c in missing[:4]) + "]")
    if bad:
        res["infra"] = ("vacuous path: a reachability canary was PROVED (the verifier considers the point unreachable, so "
                        "everything after it is proved vacuously) in unit " + u["name"] + ": " + "; ".join(bad[:6]))
    return res
