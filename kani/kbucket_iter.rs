// Engine K (Kani in place): harness module injected as a child of `crate::kbucket` by
// /verif/tools/kani_engine.py (one `#[cfg(kani)] #[path = ..] mod verif_kani;` line appended to a
// scratch copy of src/kbucket.rs).  It checks the REAL functions BucketIndex::new,
// Key::log2_distance (via U256), ClosestBucketsIter::{new, next_in, next_out, next} bit-precisely
// over all 256-bit distances.  Contracts are the `*_post` predicates below.
use super::*;
use super::key::U256;

fn any_u256() -> U256 {
    U256([kani::any(), kani::any(), kani::any(), kani::any()])
}
fn bit(d: &U256, i: usize) -> bool {
    (d.0[i / 64] >> (i % 64)) & 1 == 1
}
/// index of the most significant set bit (None for zero) — specification, written independently of uint
fn msb(d: &U256) -> Option<usize> {
    let mut r = None;
    let mut i = 0;
    while i < 256 {
        if bit(d, i) { r = Some(i); }
        i += 1;
    }
    r
}

// ------------------------------------------------------------------------------------------
// C07.index / C11: BucketIndex::new(d) == msb(d); leading_zeros(d) == 255 - msb (256 for zero)
// ------------------------------------------------------------------------------------------
#[kani::proof]
#[kani::unwind(258)]
fn check_bucket_index_new() {
    let d = any_u256();
    let r = BucketIndex::new(&Distance(d));
    match msb(&d) {
        None => assert!(r.is_none(), "C07.index: zero distance has no bucket"),
        Some(m) => {
            assert!(r.is_some(), "C07.index: non-zero distance has a bucket");
            assert!(r.unwrap().get() == m, "C07.index: bucket is the index of the most significant set bit");
        }
    }
    let lz = d.leading_zeros() as usize;
    match msb(&d) {
        None => assert!(lz == 256, "C07.lz: leading_zeros(0) == 256"),
        Some(m) => assert!(lz == 255 - m, "C07.lz: leading_zeros == 255 - msb"),
    }
    kani::cover!(msb(&d) == Some(0));
    kani::cover!(msb(&d) == Some(255));
}

// ------------------------------------------------------------------------------------------
// contracts of next_in / next_out
// ------------------------------------------------------------------------------------------
/// next_in(i): the highest set bit strictly below i, if any
fn next_in_post(d: &U256, i: usize, r: Option<usize>, k: usize) -> bool {
    // k is an arbitrary witness index used to state the universally quantified part
    match r {
        Some(j) => j < i && bit(d, j) && !(j < k && k < i && bit(d, k)),
        None => !(k < i && bit(d, k)),
    }
}
/// next_out(i): the lowest clear bit strictly above i, if any
fn next_out_post(d: &U256, i: usize, r: Option<usize>, k: usize) -> bool {
    match r {
        Some(j) => i < j && j < 256 && !bit(d, j) && !(i < k && k < j && !bit(d, k)),
        None => !(i < k && k < 256 && !bit(d, k)),
    }
}

#[kani::proof]
#[kani::unwind(258)]
fn check_next_in() {
    let d = any_u256();
    let i: usize = kani::any();
    kani::assume(i < 256);
    let it = ClosestBucketsIter { distance: Distance(d), state: ClosestBucketsIterState::Done };
    let r = it.next_in(BucketIndex(i)).map(|b| b.get());
    let k: usize = kani::any();
    kani::assume(k < 256);
    assert!(next_in_post(&d, i, r, k), "C08.next_in: next lower set bit of the distance");
    kani::cover!(r.is_none() && i > 0);
    kani::cover!(r == Some(0));
}

#[kani::proof]
#[kani::unwind(258)]
fn check_next_out() {
    let d = any_u256();
    let i: usize = kani::any();
    kani::assume(i < 256);
    let it = ClosestBucketsIter { distance: Distance(d), state: ClosestBucketsIterState::Done };
    let r = it.next_out(BucketIndex(i)).map(|b| b.get());
    let k: usize = kani::any();
    kani::assume(k < 256);
    assert!(next_out_post(&d, i, r, k), "C08.next_out: next higher clear bit of the distance");
    kani::cover!(r.is_none());
    kani::cover!(r == Some(255));
}

// ------------------------------------------------------------------------------------------
// C08.once / C08.all: inductive step of ClosestBucketsIter::next over the ghost predicate `yielded`
// ------------------------------------------------------------------------------------------
fn start_of(d: &U256) -> usize { match msb(d) { Some(m) => m, None => 0 } }

/// has bucket j already been yielded when the iterator (for distance d) is in this state?
fn yielded(d: &U256, st: &ClosestBucketsIterState, j: usize) -> bool {
    let s = start_of(d);
    let zoomed_in = |lo: usize| j >= lo && j <= s && (j == s || bit(d, j));
    match st {
        ClosestBucketsIterState::Start(_) => false,
        ClosestBucketsIterState::ZoomIn(i) => zoomed_in(i.get()),
        ClosestBucketsIterState::ZoomOut(i) => zoomed_in(0) || j == 0 || (j <= i.get() && !bit(d, j)),
        ClosestBucketsIterState::Done => true,
    }
}
/// states reachable from `new(d)` (the invariant of the state machine)
fn reachable(d: &U256, st: &ClosestBucketsIterState) -> bool {
    let s = start_of(d);
    match st {
        ClosestBucketsIterState::Start(i) => i.get() == s,
        ClosestBucketsIterState::ZoomIn(i) => i.get() <= s && (i.get() == s || bit(d, i.get())),
        ClosestBucketsIterState::ZoomOut(i) => i.get() < 256 && (i.get() == 0 || !bit(d, i.get())),
        ClosestBucketsIterState::Done => true,
    }
}
fn any_state(which: u8) -> ClosestBucketsIterState {
    let i: usize = kani::any();
    kani::assume(i < 256);
    match which {
        0 => ClosestBucketsIterState::Start(BucketIndex(i)),
        1 => ClosestBucketsIterState::ZoomIn(BucketIndex(i)),
        2 => ClosestBucketsIterState::ZoomOut(BucketIndex(i)),
        _ => ClosestBucketsIterState::Done,
    }
}
fn copy_state(st: &ClosestBucketsIterState) -> ClosestBucketsIterState {
    match st {
        ClosestBucketsIterState::Start(i) => ClosestBucketsIterState::Start(*i),
        ClosestBucketsIterState::ZoomIn(i) => ClosestBucketsIterState::ZoomIn(*i),
        ClosestBucketsIterState::ZoomOut(i) => ClosestBucketsIterState::ZoomOut(*i),
        ClosestBucketsIterState::Done => ClosestBucketsIterState::Done,
    }
}

fn step(which: u8) {
    let d = any_u256();
    let st = any_state(which);
    kani::assume(reachable(&d, &st));
    let old = copy_state(&st);
    let mut it = ClosestBucketsIter { distance: Distance(d), state: st };
    let r = it.next().map(|b| b.get());
    let j: usize = kani::any();
    kani::assume(j < 256);
    assert!(reachable(&d, &it.state), "C08.inv: state stays reachable");
    match r {
        Some(b) => {
            assert!(b < 256, "C08.range: yielded bucket index < 256");
            assert!(!yielded(&d, &old, b), "C08.once: bucket yielded twice");
            assert!(yielded(&d, &it.state, j) == (yielded(&d, &old, j) || j == b),
                "C08.once: yielded set grows by exactly the returned bucket");
        }
        None => {
            assert!(yielded(&d, &old, j), "C08.all: iterator ended before every bucket was yielded");
            assert!(matches!(it.state, ClosestBucketsIterState::Done), "C08.all: ends in Done");
        }
    }
    kani::cover!(if which < 3 { r.is_some() } else { r.is_none() });
}
#[kani::proof] #[kani::unwind(258)] fn check_next_start() { step(0) }
#[kani::proof] #[kani::unwind(258)] fn check_next_zoom_in() { step(1) }
#[kani::proof] #[kani::unwind(258)] fn check_next_zoom_out() { step(2) }
#[kani::proof] #[kani::unwind(258)] fn check_next_done() { step(3) }

#[kani::proof]
#[kani::unwind(258)]
fn check_iter_new() {
    let d = any_u256();
    let it = ClosestBucketsIter::new(Distance(d));
    assert!(reachable(&d, &it.state), "C08.new: initial state reachable");
    assert!(matches!(it.state, ClosestBucketsIterState::Start(_)), "C08.new: starts in Start");
    let j: usize = kani::any();
    kani::assume(j < 256);
    assert!(!yielded(&d, &it.state, j), "C08.new: nothing yielded yet");
}

// ------------------------------------------------------------------------------------------
// C08.order: buckets are yielded in order of increasing distance to the target.
// For local l, target t (d = l^t), a node a in bucket i (msb(a^l) == i) and a node b in bucket j:
// if i is yielded before j then (a^t) < (b^t).  "Before" is expressed through the rank function below,
// and `check_rank_matches_next` ties the rank to the real iterator step.
// ------------------------------------------------------------------------------------------
/// position class of bucket j in the yield order for distance d: (phase, key) compared lexicographically;
/// phase 0 = start bucket, 1 = zoom-in (descending index), 2 = bucket 0 / zoom-out (ascending index)
fn rank(d: &U256, j: usize) -> (u8, usize) {
    let s = start_of(d);
    if j == s { (0, 0) }
    else if j < s && bit(d, j) { (1, 255 - j) }
    else { (2, j) }
}
fn lt_u256(a: &U256, b: &U256) -> bool { a < b }

#[kani::proof]
#[kani::unwind(258)]
fn check_order() {
    let l = any_u256();
    let t = any_u256();
    let a = any_u256();
    let b = any_u256();
    let d = l ^ t;
    let xa = a ^ l;
    let xb = b ^ l;
    kani::assume(!xa.is_zero() && !xb.is_zero());
    let i = start_of(&xa);
    let j = start_of(&xb);
    kani::assume(rank(&d, i) < rank(&d, j));
    assert!(lt_u256(&(a ^ t), &(b ^ t)), "C08.order: a bucket yielded earlier holds only nodes closer to the target");
}

/// the real `next()` moves strictly forward in rank order (ties `rank` to the implementation)
#[kani::proof]
#[kani::unwind(258)]
fn check_rank_matches_next() {
    let d = any_u256();
    let which: u8 = kani::any();
    kani::assume(which < 3);
    let st = any_state(which);
    kani::assume(reachable(&d, &st));
    let old = copy_state(&st);
    let mut it = ClosestBucketsIter { distance: Distance(d), state: st };
    if let Some(b) = it.next() {
        let j: usize = kani::any();
        kani::assume(j < 256);
        if yielded(&d, &old, j) {
            assert!(rank(&d, j) < rank(&d, b.get()), "C08.order: every bucket yielded earlier has a smaller rank");
        }
    }
}

// ------------------------------------------------------------------------------------------
// C08 / C11 / C14: Key::distance is the bit-wise XOR of the two 32-byte hashes read big-endian, and
// Key::log2_distance is None iff the hashes are equal, else 1 + the index of the highest differing bit
// (counted from the least significant end) — stated on the BYTES, independently of uint::U256
// ------------------------------------------------------------------------------------------
/// bit `i` (0 = least significant) of a 32-byte big-endian number
fn be_bit(h: &[u8; 32], i: usize) -> bool {
    (h[31 - i / 8] >> (i % 8)) & 1 == 1
}
#[kani::proof]
#[kani::unwind(258)]
fn check_key_log2_distance() {
    use enr::k256::sha2::digest::generic_array::GenericArray;
    let a: [u8; 32] = kani::any();
    let b: [u8; 32] = kani::any();
    let ka: Key<u8> = Key::new_raw(0u8, *GenericArray::from_slice(&a));
    let kb: Key<u8> = Key::new_raw(1u8, *GenericArray::from_slice(&b));
    let d = ka.distance(&kb);
    // XOR, bit by bit (an arbitrary bit position stands for all)
    let i: usize = kani::any();
    kani::assume(i < 256);
    assert!(bit(&d.0, i) == (be_bit(&a, i) != be_bit(&b, i)), "C08.distance: bit i of the distance is a_i xor b_i");
    let r = ka.log2_distance(&kb);
    // highest differing bit
    let mut hi: Option<usize> = None;
    let mut k = 0;
    while k < 256 {
        if be_bit(&a, k) != be_bit(&b, k) { hi = Some(k); }
        k += 1;
    }
    match hi {
        None => assert!(r.is_none(), "C08.log2: equal hashes have no log2 distance"),
        Some(m) => assert!(r == Some(m as u64 + 1), "C08.log2: log2 distance is 1 + index of the highest differing bit"),
    }
    assert!(r == kb.log2_distance(&ka), "C08.log2: symmetric");
    kani::cover!(hi == Some(255));
    kani::cover!(hi == Some(0));
}

/// C07 / C08: the routing-table key of a node IS its 32-byte node id (`From<NodeId> for Key<NodeId>`: no hashing), with the id
/// kept as preimage; two keys are equal exactly when these 32 bytes are (hand-written `PartialEq for Key`, the preimage is
/// not compared)
#[kani::proof]
#[kani::unwind(34)]
fn check_key_from_node_id_and_eq() {
    let a: [u8; 32] = kani::any();
    let b: [u8; 32] = kani::any();
    let ia = enr::NodeId::new(&a);
    let ib = enr::NodeId::new(&b);
    let ka: Key<enr::NodeId> = Key::from(ia);
    let kb: Key<enr::NodeId> = Key::from(ib);
    use enr::k256::sha2::digest::generic_array::GenericArray;
    // the key's bytes are observed through the XOR distance to the all-zero key (check_key_log2_distance: distance = XOR)
    let zero: Key<u8> = Key::new_raw(0u8, *GenericArray::from_slice(&[0u8; 32]));
    let i: usize = kani::any();
    kani::assume(i < 256);
    assert!(bit(&ka.distance(&zero).0, i) == be_bit(&a, i), "C07.key_is_the_node_id: bit i of the key is bit i of the node id");
    assert!(ka.preimage().raw() == a, "C07.key_is_the_node_id: the preimage is the node id");
    let mut same = true;
    let mut k = 0;
    while k < 32 { if a[k] != b[k] { same = false; } k += 1; }
    assert!((ka == kb) == same, "C07.key_eq: keys are equal iff the 32 bytes are");
    // the preimage takes no part in the comparison
    let kc: Key<u8> = Key::new_raw(0u8, *GenericArray::from_slice(&a));
    let kd: Key<u8> = Key::new_raw(1u8, *GenericArray::from_slice(&a));
    assert!(kc == kd, "C07.key_eq: the preimage is not compared");
    kani::cover!(same);
    kani::cover!(!same);
}

/// C08: `Distance: Ord` is the numeric order of the 256-bit XOR value, i.e. the lexicographic order of its big-endian bytes
/// (ClosestIter sorts every batch with it; the query peer maps are keyed by it)
#[kani::proof]
#[kani::unwind(34)]
fn check_distance_order() {
    let a: [u8; 32] = kani::any();
    let b: [u8; 32] = kani::any();
    let da = Distance(U256::from_big_endian(&a));
    let db = Distance(U256::from_big_endian(&b));
    // first differing byte decides
    let mut expected = core::cmp::Ordering::Equal;
    let mut k = 0;
    while k < 32 {
        if expected == core::cmp::Ordering::Equal && a[k] != b[k] {
            expected = if a[k] < b[k] { core::cmp::Ordering::Less } else { core::cmp::Ordering::Greater };
        }
        k += 1;
    }
    assert!(da.cmp(&db) == expected, "C08.distance_order: Distance::cmp is the numeric order of the 256-bit value");
    assert!(da.partial_cmp(&db) == Some(expected), "C08.distance_order: partial_cmp agrees with cmp");
    assert!((da == db) == (expected == core::cmp::Ordering::Equal), "C08.distance_order: equality is equality of all 256 bits");
    kani::cover!(expected == core::cmp::Ordering::Less);
    kani::cover!(expected == core::cmp::Ordering::Greater);
}
